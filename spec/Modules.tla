------------------------------ MODULE Modules ------------------------------
(* C14 - imports resolve the same everywhere and respect visibility.

   Part 1  layouts (sets of paths), import forms, the documented resolution `Resolve`
           (reference/imports_and_modules.md: path table, `..`/`super`, `crate`).
   Part 2  the three resolvers TRANSCRIBED from the code, side by side:
             CliResolve     src/cli/commands.rs        collect_modules (inline resolution)
             SharedResolve  src/frontend/module.rs     resolve_import_path (LSP, ModuleCollector)
             LibResolve     src/frontend/resolver.rs   ModuleResolver::resolve_import/find_module_file
           the parametric resolver `Gen` they are instances of (MC_Modules: GenIsCli/Lib/Lsp/Col)
           and the cause analysis that names a disagreement by the algorithmic differences
           (segment / candidates / base) that explain it: the known-finding signature.
   Part 3  visibility: what the property demands (only `pub` is usable) and the transcription
           of what the checker does (typechecker/mod.rs import_module + is_public_decl,
           collect.rs collect_import / validate_import_visibility / define_import_symbol).
   Part 4  the WORKLIST MACHINES of the four collectors, one action per loop step:
             cli  collect_modules                 stack `to_process`, set `processed`
             lib  ModuleResolver::resolve         same loop, LibResolve
             lsp  collect_dependency_modules      stack of (path, base), set `seen`
             col  ModuleCollector::load_module    recursion: frames, `loading`, `loaded`
           with termination (a strictly decreasing measure), visit-once, and the demanded
           "a cycle or a missing module ends with a diagnostic".

   A path is a sequence of component strings; <<>> is the top of the modelled world (the
   directory a layout is materialised in). A layout is a set F of FILE paths; a directory
   exists iff it is a proper prefix of a file (Path::exists is true for both). *)
EXTENDS Integers, Sequences, FiniteSets, TLC

\* ===================================================================== Part 1: paths
NoFile == <<>>
Parent(d) == IF d = <<>> THEN <<>> ELSE SubSeq(d, 1, Len(d) - 1)   \* parent().unwrap_or(self)
PathPrefix(p, f) == Len(p) <= Len(f) /\ SubSeq(f, 1, Len(p)) = p
Exists(F, p) == \E f \in F : PathPrefix(p, f)
DirOf(f) == Parent(f)
WithExt(p, ext) == [p EXCEPT ![Len(p)] = @ \o "." \o ext]            \* PathBuf::set_extension
RECURSIVE Up(_, _)
Up(d, n) == IF n = 0 THEN d ELSE Up(Parent(d), n - 1)
DropLast(s) == SubSeq(s, 1, Len(s) - 1)

\* An import after parsing (ast::ImportDecl): kind "mod" = `import a::b`, "from" = `from a.b import Item`
\* [kind, levels (parent_levels), abs (is_absolute = `crate`), segs, item, alias]
Imp(kind, levels, abs, segs) == [kind |-> kind, levels |-> levels, abs |-> abs, segs |-> segs]
Skipped(imp) == imp.segs = <<>> \/ imp.segs[1] = "std"

\* project root search (identical loop in all three resolvers): walk up until Cargo.toml or src/
RECURSIVE FindRoot(_, _)
FindRoot(F, d) == IF Exists(F, Append(d, "Cargo.toml")) \/ Exists(F, Append(d, "src")) THEN d
                  ELSE IF d # <<>> THEN FindRoot(F, Parent(d)) ELSE d
CrateBase(F, d) == LET r == FindRoot(F, d) IN IF Exists(F, Append(r, "src")) THEN Append(r, "src") ELSE r
TargetDir(F, base, imp) == IF imp.abs THEN CrateBase(F, base) ELSE Up(base, imp.levels)

\* the five file shapes any resolver probes for a module path P
Cands == <<"incn", "incan", "mod_incn", "mod_incan", "init_incn">>
CandFile(P, c) == CASE c = "incn" -> WithExt(P, "incn")
                    [] c = "incan" -> WithExt(P, "incan")
                    [] c = "mod_incn" -> Append(P, "mod.incn")
                    [] c = "mod_incan" -> Append(P, "mod.incan")
                    [] c = "init_incn" -> Append(P, "__init__.incn")
Present(F, P) == {c \in {Cands[i] : i \in 1..Len(Cands)} : CandFile(P, c) \in F}
FirstOf(F, P, order) ==
  LET idx == {i \in 1..Len(order) : Exists(F, CandFile(P, order[i]))} IN
  IF idx = {} THEN NoFile ELSE CandFile(P, order[CHOOSE i \in idx : \A j \in idx : i <= j])

\* ------------------------------------------------ the documentation (where it fixes the answer)
\* reference/imports_and_modules.md: `models` = same directory, `db.models` = child db/models.incn,
\* `..common`/`super::utils` = parent's file, `crate.config` = root's config.incn (root = nearest
\* Cargo.toml or src/); `import db::models::User` names the item User of db/models.incn.
\* Not fixed: .incn against .incan, directory modules, whether `import p::q` is the file p/q or the
\* item q of p when both readings have a candidate, where `crate` points when the root has a src/.
DocBase(F, fromFile, imp) ==
  IF ~imp.abs THEN [fixed |-> TRUE, dir |-> Up(DirOf(fromFile), imp.levels)]
  ELSE LET r == FindRoot(F, DirOf(fromFile)) IN
       IF Exists(F, Append(r, "Cargo.toml")) /\ ~Exists(F, Append(r, "src"))
       THEN [fixed |-> TRUE, dir |-> r] ELSE [fixed |-> FALSE, dir |-> r]
Resolve(F, fromFile, imp) ==      \* -> [fixed, file]
  LET b == DocBase(F, fromFile, imp)
      A == Present(F, b.dir \o imp.segs)
      D == IF Len(imp.segs) > 1 THEN Present(F, b.dir \o DropLast(imp.segs)) ELSE {}
      item == imp.kind = "mod" /\ Len(imp.segs) > 1 IN
  IF Skipped(imp) THEN [fixed |-> TRUE, file |-> NoFile]
  ELSE IF ~b.fixed THEN [fixed |-> FALSE, file |-> NoFile]
  ELSE IF ~item THEN (IF A = {} THEN [fixed |-> TRUE, file |-> NoFile]
                      ELSE IF A = {"incn"} THEN [fixed |-> TRUE, file |-> WithExt(b.dir \o imp.segs, "incn")]
                      ELSE [fixed |-> FALSE, file |-> NoFile])
  ELSE (IF A = {} /\ D = {} THEN [fixed |-> TRUE, file |-> NoFile]
        ELSE IF A = {} /\ D = {"incn"} THEN [fixed |-> TRUE, file |-> WithExt(b.dir \o DropLast(imp.segs), "incn")]
        ELSE [fixed |-> FALSE, file |-> NoFile])

\* ===================================================================== Part 2: transcriptions
\* ---- src/cli/commands.rs collect_modules, the body of `for decl in &ast.declarations`
CliModuleSegs(imp) == IF imp.kind = "from" THEN imp.segs
                      ELSE IF Len(imp.segs) > 1 THEN DropLast(imp.segs) ELSE imp.segs
CliResolve(F, baseDir, imp) ==
  IF Skipped(imp) THEN NoFile ELSE
  LET dep == TargetDir(F, baseDir, imp) \o CliModuleSegs(imp)
      a == WithExt(dep, "incn")            \* dep_path.set_extension("incn"); if dep_path.exists()
      b == WithExt(dep, "incan") IN        \* else dep_path.set_extension("incan")
  IF Exists(F, a) THEN a ELSE IF Exists(F, b) THEN b ELSE NoFile

\* ---- src/frontend/module.rs resolve_import_path
SharedResolve(F, baseDir, imp) ==
  IF Skipped(imp) THEN NoFile ELSE
  LET fp == TargetDir(F, baseDir, imp) \o imp.segs          \* ALL segments, also for `import a::b`
      c1 == WithExt(fp, "incn")   c2 == WithExt(fp, "incan")
      c3 == Append(fp, "mod.incn")   c4 == Append(fp, "mod.incan") IN
  IF Exists(F, c1) THEN c1 ELSE IF Exists(F, c2) THEN c2
  ELSE IF Exists(F, c3) THEN c3 ELSE IF Exists(F, c4) THEN c4 ELSE NoFile

\* ---- src/frontend/resolver.rs ModuleResolver::resolve_import + find_module_file
LibResolve(F, baseDir, imp) ==
  IF Skipped(imp) THEN NoFile ELSE
  LET t == TargetDir(F, baseDir, imp)
      ms == CliModuleSegs(imp)
      primary == WithExt(t \o ms, "incn")
      modp == Append(t \o ms, "mod.incn")
      initp == Append(t \o ms, "__init__.incn") IN
  IF Exists(F, primary) THEN primary ELSE IF Exists(F, modp) THEN modp
  ELSE IF Exists(F, initp) THEN initp ELSE NoFile

\* ---- the parametric resolver: the three are instances that differ in exactly three dimensions
\* seg  : drop the last segment of `import a::b[::c]` or keep all segments
\* cand : which file shapes are probed, in which order
\* base : relative to the ENTRY file's directory or to the IMPORTING file's directory
Gen(F, entryDir, impDir, imp, o) ==
  IF Skipped(imp) THEN NoFile ELSE
  LET b == IF o.base = "entry" THEN entryDir ELSE impDir
      ms == IF o.seg = "drop" THEN CliModuleSegs(imp) ELSE imp.segs IN
  FirstOf(F, TargetDir(F, b, imp) \o ms, o.cand)
CliOpts == [seg |-> "drop", cand |-> <<"incn", "incan">>, base |-> "entry"]
LibOpts == [seg |-> "drop", cand |-> <<"incn", "mod_incn", "init_incn">>, base |-> "entry"]
LspOpts == [seg |-> "all", cand |-> <<"incn", "incan", "mod_incn", "mod_incan">>, base |-> "importer"]
ColOpts == [LspOpts EXCEPT !.base = "entry"]            \* ModuleCollector: shared resolver, entry base
\* the documentation as an option vector, for a case in which it fixes the answer
DocOpts(imp, r) == [seg |-> IF imp.kind = "mod" /\ Len(imp.segs) > 1 THEN "drop" ELSE "all",
                    cand |-> <<"incn">>, base |-> "importer"]

\* a resolution case: layout, entry file, importing file, import
CliAns(F, entry, importer, imp) == CliResolve(F, DirOf(entry), imp)
LibAns(F, entry, importer, imp) == LibResolve(F, DirOf(entry), imp)
LspAns(F, entry, importer, imp) == SharedResolve(F, DirOf(importer), imp)
ColAns(F, entry, importer, imp) == SharedResolve(F, DirOf(entry), imp)

\* ---- cause analysis: the smallest set of dimensions in which X must be made like Y to answer like Y
Dims == <<{"seg"}, {"cand"}, {"base"}, {"seg", "cand"}, {"seg", "base"}, {"cand", "base"}, {"seg", "cand", "base"}>>
Hybrid(x, y, S) == [seg |-> IF "seg" \in S THEN y.seg ELSE x.seg,
                    cand |-> IF "cand" \in S THEN y.cand ELSE x.cand,
                    base |-> IF "base" \in S THEN y.base ELSE x.base]
DimName(S) == CASE S = {"seg"} -> "segment" [] S = {"cand"} -> "candidates" [] S = {"base"} -> "base"
                [] S = {"seg", "cand"} -> "segment+candidates" [] S = {"seg", "base"} -> "segment+base"
                [] S = {"cand", "base"} -> "candidates+base" [] OTHER -> "segment+candidates+base"
Cause(F, entry, importer, imp, x, y) ==
  LET want == Gen(F, DirOf(entry), DirOf(importer), imp, y)
      ok == {i \in 1..Len(Dims) : Gen(F, DirOf(entry), DirOf(importer), imp, Hybrid(x, y, Dims[i])) = want} IN
  IF Gen(F, DirOf(entry), DirOf(importer), imp, x) = want THEN "agree"
  ELSE DimName(Dims[CHOOSE i \in ok : \A j \in ok : i <= j])

\* ===================================================================== Part 3: visibility
\* A dependency declaration D of kind k (const, def, model, class, enum, newtype, trait), `pub` or
\* not, in module M; the importer refers to it through `ref`:
\*   from / from_alias : `from M import D [as Al]`       item / item_alias : `import M::D [as Al]`
\*   none : no import of D (the module is loaded because another item is imported)
\*   qualified : `import M` then `M.D`
\* and uses it through `use` (lax: a use that any bound name passes; typed: a use that needs the
\* real declaration). What the property demands:
Demanded(pub) == IF pub THEN "accept" ELSE "reject"
\* What the checker does. `loaded`: the collector handed the module to check_with_imports;
\* `keyed`: it did so under the name segs.join("_") that validate_import_visibility looks up.
\* import_module collects only pub declarations under their own name; collect_import then defines
\* a Module placeholder for the local name unless a Type/Function/Trait/Variant of that name exists
\* (so a const is shadowed, an alias is always a placeholder).
SymState(kind, pub, ref, loaded) ==
  LET real == loaded /\ pub IN
  CASE ref \in {"from", "item"} -> IF real THEN "real" ELSE "placeholder"     \* (fix 7014840: an imported pub const keeps its real symbol)
    [] ref \in {"from_alias", "item_alias", "qualified"} -> "placeholder"
    [] ref = "none" -> IF real THEN "real" ELSE "unknown"
UseVerdict(use, st) ==
  CASE st = "real" -> "accept"
    [] st = "unknown" -> "reject"
    [] st = "placeholder" -> IF use \in {"lax", "call", "ctor", "with"} THEN "accept" ELSE "reject"
CheckerVerdict(kind, pub, ref, use, loaded, keyed) ==
  IF ref \in {"from", "from_alias"} /\ loaded /\ keyed /\ ~pub THEN "reject"     \* "Cannot import ... private"
  ELSE IF ref = "qualified" THEN (IF use \in {"call", "ctor"} THEN "accept" ELSE "reject")
  ELSE UseVerdict(use, SymState(kind, pub, ref, loaded))

\* ===================================================================== Part 4: worklist machines
\* Layout with contents: files and imports[f] = the import declarations of f in source order.
VARIABLES files, imports, entry,     \* the layout (constant during a behaviour)
          m,                     \* which collector: "cli" | "lib" | "lsp" | "col"
          stack,                 \* cli/lib: files; lsp: [file, base]; col: call frames [file, idx]
          seen,                  \* cli/lib `processed`; lsp `seen`; col `loaded`
          loading,               \* col only
          visited,               \* files in the order they were parsed and added to the result
          status,                \* "run" | "done" | "error"
          diag                   \* the collector reported a diagnostic (cycle / unreadable)
vars == <<files, imports, entry, m, stack, seen, loading, visited, status, diag>>
layvars == <<files, imports, entry, m>>

ImportsIn(imps, f) == IF f \in DOMAIN imps THEN imps[f] ELSE <<>>
ResolveIn(FS, mm, base, imp) == CASE mm = "cli" -> CliResolve(FS, base, imp)
                                  [] mm = "lib" -> LibResolve(FS, base, imp)
                                  [] OTHER -> SharedResolve(FS, base, imp)
\* fold the imports of a file onto the stack, in source order (the last import ends on top)
RECURSIVE PushImportsIn(_, _, _, _, _, _)
PushImportsIn(FS, mm, st, imps, base, skip) ==
  IF imps = <<>> THEN st ELSE
  LET r == ResolveIn(FS, mm, base, Head(imps))
      st2 == IF r = NoFile \/ r \in skip THEN st
             ELSE IF mm = "lsp" THEN Append(st, [file |-> r, base |-> DirOf(r)]) ELSE Append(st, r) IN
  PushImportsIn(FS, mm, st2, Tail(imps), base, skip)
InitStack(FS, imps, e, mm) ==
  CASE mm \in {"cli", "lib"} -> <<e>>
    \* lsp: the stack is seeded with the entry's direct imports (the entry is analysed by the caller)
    [] mm = "lsp" -> PushImportsIn(FS, "lsp", <<>>, ImportsIn(imps, e), DirOf(e), {})
    [] mm = "col" -> <<>>

ImportsOf(f) == ImportsIn(imports, f)
ResolveFor(mm, base, imp) == ResolveIn(files, mm, base, imp)
PushImports(mm, st, imps, base, skip) == PushImportsIn(files, mm, st, imps, base, skip)
Top == stack[Len(stack)]
Pop == SubSeq(stack, 1, Len(stack) - 1)

MInit(mm) ==
  /\ m = mm /\ seen = {} /\ loading = {} /\ visited = <<>> /\ status = "run" /\ diag = FALSE
  /\ stack = InitStack(files, imports, entry, mm)

\* ---- cli / lib: `while let Some((file_path, ..)) = to_process.pop()`
WlSkip == /\ m \in {"cli", "lib"} /\ status = "run" /\ stack # <<>> /\ Top \in seen
          /\ stack' = Pop /\ UNCHANGED <<seen, loading, visited, status, diag, layvars>>
WlVisit == /\ m \in {"cli", "lib"} /\ status = "run" /\ stack # <<>> /\ Top \notin seen
           /\ seen' = seen \cup {Top}
           /\ IF Top \notin files                      \* read_source fails: Err(..) = a diagnostic
              THEN status' = "error" /\ diag' = TRUE /\ stack' = Pop /\ UNCHANGED visited
              ELSE /\ stack' = PushImports(m, Pop, ImportsOf(Top), DirOf(entry), seen')
                   /\ visited' = Append(visited, Top) /\ UNCHANGED <<status, diag>>
           /\ UNCHANGED <<loading, layvars>>
WlDone == /\ m \in {"cli", "lib", "lsp"} /\ status = "run" /\ stack = <<>>
          /\ status' = "done" /\ UNCHANGED <<stack, seen, loading, visited, diag, layvars>>

\* ---- lsp: `while let Some((path, base_dir, _)) = stack.pop()`; `if !seen.insert(canonical) { continue }`
LspSkip == /\ m = "lsp" /\ status = "run" /\ stack # <<>> /\ Top.file \in seen
           /\ stack' = Pop /\ UNCHANGED <<seen, loading, visited, status, diag, layvars>>
LspVisit == /\ m = "lsp" /\ status = "run" /\ stack # <<>> /\ Top.file \notin seen
            /\ seen' = seen \cup {Top.file}
            /\ IF Top.file \notin files                \* unreadable: `continue`, silently
               THEN stack' = Pop /\ UNCHANGED visited
               ELSE /\ stack' = PushImports("lsp", Pop, ImportsOf(Top.file), Top.base, {})   \* no seen check on push
                    /\ visited' = Append(visited, Top.file)
            /\ UNCHANGED <<loading, status, diag, layvars>>

\* ---- col: ModuleCollector::load_module (recursive); a frame = [file, idx of the next import]
ColStart == /\ m = "col" /\ status = "run" /\ stack = <<>> /\ seen = {} /\ loading = {}
            /\ loading' = {entry} /\ stack' = <<[file |-> entry, idx |-> 1]>>
            /\ UNCHANGED <<seen, visited, status, diag, layvars>>
ColTarget == ResolveFor("col", DirOf(entry), ImportsOf(Top.file)[Top.idx])
Advance == [stack EXCEPT ![Len(stack)].idx = @ + 1]
ColUnresolved == /\ m = "col" /\ status = "run" /\ stack # <<>> /\ Top.idx <= Len(ImportsOf(Top.file))
                 /\ (ColTarget = NoFile \/ ColTarget \in seen)       \* None, or already loaded: Ok(())
                 /\ stack' = Advance /\ UNCHANGED <<seen, loading, visited, status, diag, layvars>>
ColCycle == /\ m = "col" /\ status = "run" /\ stack # <<>> /\ Top.idx <= Len(ImportsOf(Top.file))
            /\ ColTarget # NoFile /\ ColTarget \notin seen /\ ColTarget \in loading
            /\ status' = "error" /\ diag' = TRUE                     \* "Circular import detected"
            /\ UNCHANGED <<stack, seen, loading, visited, layvars>>
ColCall == /\ m = "col" /\ status = "run" /\ stack # <<>> /\ Top.idx <= Len(ImportsOf(Top.file))
           /\ ColTarget # NoFile /\ ColTarget \notin seen /\ ColTarget \notin loading
           /\ loading' = loading \cup {ColTarget}
           /\ stack' = Append(Advance, [file |-> ColTarget, idx |-> 1])
           /\ UNCHANGED <<seen, visited, status, diag, layvars>>
ColReturn == /\ m = "col" /\ status = "run" /\ stack # <<>> /\ Top.idx > Len(ImportsOf(Top.file))
             /\ loading' = loading \ {Top.file} /\ seen' = seen \cup {Top.file}
             /\ visited' = Append(visited, Top.file) /\ stack' = Pop
             /\ status' = IF Len(stack) = 1 THEN "done" ELSE "run"
             /\ UNCHANGED <<diag, layvars>>

MNext == WlSkip \/ WlVisit \/ WlDone \/ LspSkip \/ LspVisit \/ ColStart \/ ColUnresolved \/ ColCycle \/ ColCall \/ ColReturn

\* ---- properties of the machines
NoDup(s) == \A i, j \in 1..Len(s) : i # j => s[i] # s[j]
VisitOnce == NoDup(visited)
VisitedExist == \A i \in 1..Len(visited) : visited[i] \in files
\* termination: a natural-number measure that every step strictly decreases
MaxImp == LET S == {Len(imports[f]) : f \in DOMAIN imports} IN
          IF S = {} THEN 0 ELSE CHOOSE n \in S : \A k \in S : k <= n
RECURSIVE SumRemaining(_)
SumRemaining(st) == IF st = <<>> THEN 0
                    ELSE (Len(ImportsOf(Head(st).file)) + 1 - Head(st).idx) + 1 + SumRemaining(Tail(st))
Measure ==
  IF status # "run" THEN 0
  ELSE IF m = "col"
       THEN 1 + (2 * MaxImp + 4) * Cardinality(files \ (seen \cup loading)) + SumRemaining(stack)
            + (IF stack = <<>> /\ seen = {} THEN 2 * MaxImp + 4 ELSE 0)
       ELSE 1 + (MaxImp + 1) * Cardinality((files \cup {entry}) \ seen) + Len(stack)
Decreases == [][Measure' < Measure]_vars
Progress == status = "run" => ENABLED MNext

\* what the property demands at the end: a cycle or a missing module is reported
\* (the import graph as THIS collector resolves it)
BaseFor(mm, f) == IF mm = "lsp" THEN DirOf(f) ELSE DirOf(entry)
Succ(mm, f) == {ResolveFor(mm, BaseFor(mm, f), ImportsOf(f)[i]) : i \in 1..Len(ImportsOf(f))}
RECURSIVE ReachFrom(_, _, _)
ReachFrom(mm, S, n) == IF n = 0 THEN S ELSE
  ReachFrom(mm, S \cup UNION {Succ(mm, f) \ {NoFile} : f \in S}, n - 1)
Reach(mm) == ReachFrom(mm, {entry}, Cardinality(files))
RECURSIVE ReachPlus(_, _, _)     \* files reachable from f by at least one import
ReachPlus(mm, S, n) == IF n = 0 THEN S ELSE ReachPlus(mm, S \cup UNION {Succ(mm, g) \ {NoFile} : g \in S}, n - 1)
HasCycle(mm) == \E f \in Reach(mm) : f \in ReachPlus(mm, Succ(mm, f) \ {NoFile}, Cardinality(files))
HasMissing(mm) == \E f \in Reach(mm) : \E i \in 1..Len(ImportsOf(f)) :
                     ~Skipped(ImportsOf(f)[i]) /\ ResolveFor(mm, BaseFor(mm, f), ImportsOf(f)[i]) = NoFile
DiagDue(mm) == HasCycle(mm) \/ HasMissing(mm)
DiagWhenDue == (status # "run" /\ DiagDue(m)) => diag
=============================================================================
