CONSTANT Universes = {"data"}
CONSTANT Negatives = FALSE
CONSTANT LayoutSel = {"flat"}
CONSTANT IStyles = {"alias"}
INIT Init
NEXT Next
INVARIANTS ResolvesRight PubExactly PositiveLinks NegativeBreaks Emit
CHECK_DEADLOCK FALSE
