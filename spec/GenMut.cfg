CONSTANT MaxNest = 3
INIT Init
NEXT Next
INVARIANTS MutantsAreIllTyped Emit
CHECK_DEADLOCK FALSE
