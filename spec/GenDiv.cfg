INIT Init
NEXT Next
INVARIANTS OnlyZeroDivision ZeroText Emit
CHECK_DEADLOCK FALSE
