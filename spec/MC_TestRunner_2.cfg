CONSTANTS NT = 2
          Outcomes = {"pass", "assert_fail", "panic", "nobuild"}
          HarnessModes = {"runs"}
SPECIFICATION MCSpec
INVARIANTS TypeOK PassedMeansRanAndPassed FailedMeansRanAndFailed XfailInverts SkipNotRun OnlySelectedRun
           RanOnlyIfJudgedOrRunning JudgedIsPrefix AllSelectedJudged CountersMatchVerdicts CountsAddUp
           PrintedMatchesVerdicts ExitIffFailure NotDoneNoExit
PROPERTIES Progress
CHECK_DEADLOCK TRUE
