---------------------------- MODULE PipelineTrace ----------------------------
(* B2 for the compiler pipeline: each recorded event carries the program (the expression AST of a
   GenExpr case, as rendered and compiled) and what the REAL compiled program did (typed stdout
   values, exit class, error text). The specification recomputes Accept and Run from the event's
   own program - it is the oracle at validation time, not a table printed earlier. *)
EXTENDS GenExpr, IOUtils
Rec == ndJsonDeserialize(IOEnv.TRACE)
VARIABLE l
TInit == l = 1 /\ e = EInt(0) /\ dep = 0
EvOK(ev) == LET P == Prog(ev.e)  r == Run(P) IN
            /\ Accept(P)
            /\ r.out = ev.out /\ r.status = ev.status /\ r.err = ev.err
TNext == l <= Len(Rec) /\ EvOK(Rec[l]) /\ l' = l + 1 /\ UNCHANGED <<e, dep>>
TSpec == TInit /\ [][TNext]_<<l, e, dep>>
Accepted == IF TLCGet("stats").diameter - 1 = Len(Rec) THEN TRUE
            ELSE PrintT(<<"REJECT", ToJson([at |-> TLCGet("stats").diameter, ev |-> Rec[TLCGet("stats").diameter]])>>) /\ FALSE
=============================================================================
