------------------------------- MODULE GenColl -------------------------------
(* C01 generator, string / collection operations, comprehensions, closures, f-strings, tuples.
   A program is a fixed prelude (a list, a dict, strings, a captured constant, a closure), a short sequence
   of operations drawn from a menu - each one mutates a collection or prints a value - and a fixed dump of
   the final state of the list and the dict. Helper h(a) prints a and returns a + 1, so the order in which
   receivers, arguments, comprehension conditions / elements, dict keys / values and f-string holes are
   evaluated is part of the printed behaviour. Behaviour = Core's Run (EvalColl). *)
EXTENDS Core, Json

EInt(n)     == [k |-> "lit", lk |-> "int", iv |-> n]
EBool(b)    == [k |-> "lit", lk |-> "bool", bv |-> b]
EStr(s)     == [k |-> "lit", lk |-> "str", sv |-> s]
EId(x)      == [k |-> "ident", name |-> x]
EUn(o, e)   == [k |-> "un", op |-> o, e |-> e]
EBin(o,l,r) == [k |-> "bin", op |-> o, l |-> l, r |-> r]
ECall(f, a) == [k |-> "call", f |-> f, args |-> a]
EList(xs)   == [k |-> "list", items |-> xs]
EIdx(o, i)  == [k |-> "index", obj |-> o, idx |-> i]
EM(o, m, a) == [k |-> "mcall", recv |-> o, name |-> m, args |-> a]
ETuple(xs)  == [k |-> "tuple", items |-> xs]
ETF(o, i)   == [k |-> "tfield", obj |-> o, idx |-> i]
EDict(ks, vs) == [k |-> "dict", keys |-> ks, vals |-> vs]
EComp(el, v, it, c) == [k |-> "listcomp", elem |-> el, var |-> v, iter |-> it, cond |-> c]
EDComp(ke, va, v, it, c) == [k |-> "dictcomp", key |-> ke, val |-> va, var |-> v, iter |-> it, cond |-> c]
EClos(ps, b) == [k |-> "closure", params |-> ps, body |-> b]
ECallV(f, a) == [k |-> "callv", f |-> f, args |-> a]
EFStr(ps)   == [k |-> "fstr", parts |-> ps]
FS(sv) == [pk |-> "s", sv |-> sv, e |-> EInt(0)]
FE(e)  == [pk |-> "e", sv |-> <<>>, e |-> e]
ERange(a)   == [k |-> "range", args |-> a]
SAssign(bk, x, ty, ex) == [k |-> "assign", bk |-> bk, name |-> x, ty |-> ty, e |-> ex]
SPrint(ex)  == [k |-> "print", e |-> ex]
SExpr(ex)   == [k |-> "expr", e |-> ex]
SSetIdx(x, i, ex) == [k |-> "setidx", name |-> x, idx |-> i, op |-> "", e |-> ex]
SSetIdxOp(x, i, o, ex) == [k |-> "setidx", name |-> x, idx |-> i, op |-> o, e |-> ex]
SIf(c, t, el, e) == [k |-> "if", cond |-> c, then |-> t, elifs |-> el, else |-> e]
SFor(v, it, b) == [k |-> "for", var |-> v, iter |-> it, body |-> b]
SRet(ex)    == [k |-> "return", e |-> ex]
H(e) == ECall("h", <<e>>)

Helper == [name |-> "h", params |-> <<[name |-> "a", ty |-> "int", mut |-> FALSE]>>, ret |-> "int",
           body |-> <<SPrint(EId("a")), SRet(<<EBin("+", EId("a"), EInt(1))>>)>>]

\* strings (scalar ids; lib/render.py SCALAR): "ab", " a B ", "a,b,,c", "ß€é", "aaa"
W1 == <<"a", "b">>
W2 == <<"sp", "a", "sp", "B", "sp">>
W3 == <<"a", "cm", "b", "cm", "cm", "c">>
W4 == <<"f2", "u3", "e2">>
W5 == <<"a", "a", "a">>
Cm == EStr(<<"cm">>)
Da == EStr(<<"da">>)

Prelude == << SAssign("mut", "xs", "", EList(<<EInt(3), EInt(1), EInt(2)>>)),
              SAssign("mut", "d", "", EDict(<<EStr(<<"a">>), EStr(<<"b">>)>>, <<EInt(1), EInt(2)>>)),
              SAssign("inferred", "s", "", EStr(W2)) >>
\* the closure f captures k; it is defined by the operations that use it (an unused closure has no inferable type)
FDef == << SAssign("inferred", "k", "", EInt(10)),
           SAssign("inferred", "f", "", EClos(<<"x">>, EBin("+", EBin("*", EId("x"), EInt(2)), EId("k")))) >>
UsesF(el) == el.k = "callv"
\* dump of the final state: list in order, dict through its keys
Dump == << SPrint(ECall("len", <<EId("xs")>>)),
           SFor("x", EId("xs"), <<SPrint(EId("x"))>>),
           SPrint(ECall("len", <<EId("d")>>)),
           SFor("key", EList(<<EStr(<<"a">>), EStr(<<"b">>), EStr(<<"c">>)>>),
                <<SIf(EBin("in", EId("key"), EId("d")), <<SPrint(EIdx(EId("d"), EId("key")))>>, <<>>, <<>>)>>) >>

IntE == {EInt(5), H(EInt(4)), ECall("len", <<EId("xs")>>), EIdx(EId("xs"), EInt(0))}
Idx == {EInt(0), EUn("-", EInt(1)), EInt(1)}
Keys == {EStr(<<"a">>), EStr(<<"c">>)}
StrE == {EStr(W1), EId("s"), EStr(W4)}
Conds == {<<>>, <<EBin("!=", EId("x"), EInt(2))>>, <<EBin(">", H(EBin("+", EId("x"), EInt(10))), EInt(0))>>}
Elems == {EId("x"), EBin("*", EId("x"), EInt(2)), H(EId("x")), ECallV("f", <<EId("x")>>)}
Iters == {EId("xs"), EList(<<EInt(2), EInt(0)>>), ERange(<<EInt(3)>>), ERange(<<EInt(1), EInt(3)>>)}

\* menu: each entry is a statement sequence
ListOps ==
  {<<SExpr(EM(EId("xs"), "append", <<e>>))>> : e \in IntE} \cup
  {<<SPrint(EM(EId("xs"), "pop", <<>>))>>} \cup
  {<<SSetIdx("xs", i, e)>> : i \in Idx, e \in {EInt(9), ECall("len", <<EId("xs")>>)}} \cup
  {<<SSetIdxOp("xs", i, o, e)>> : i \in {EInt(0), EUn("-", EInt(1))}, o \in {"+", "-", "*", "//", "%"}, e \in {EInt(2), EUn("-", EInt(2))}} \cup
  {<<SSetIdx("xs", i, EInt(9))>> : i \in {EInt(3), EUn("-", EInt(3)), EUn("-", EInt(4))}} \cup       \* at and beyond both ends
  {<<SPrint(EIdx(EId("xs"), i))>> : i \in {EInt(3), EUn("-", EInt(4))}} \cup
  {<<SExpr(EM(EId("xs"), "swap", <<EInt(0), EInt(2)>>))>>} \cup
  {<<SPrint(EM(EId("xs"), "contains", <<e>>))>> : e \in {EInt(1), EInt(7)}} \cup
  {<<SPrint(EBin(o, e, EId("xs")))>> : o \in {"in", "not in"}, e \in {EInt(2), EInt(9)}} \cup
  {<<SPrint(ECall(fn, <<EId("xs")>>))>> : fn \in {"sum", "min", "max", "len"}} \cup
  {<<SPrint(EIdx(EId("xs"), i))>> : i \in Idx} \cup
  {<<SFor("y", ECall("sorted", <<EId("xs")>>), <<SPrint(EId("y"))>>)>>}
DictOps ==
  {<<SSetIdx("d", kk, e)>> : kk \in Keys, e \in {EInt(7), H(EInt(4))}} \cup
  {<<SSetIdxOp("d", EStr(<<"a">>), o, EInt(3))>> : o \in {"+", "-", "*", "//", "%"}} \cup
  {<<SExpr(EM(EId("d"), "insert", <<kk, EInt(8)>>))>> : kk \in Keys} \cup
  {<<SPrint(EIdx(EId("d"), kk))>> : kk \in Keys} \cup
  {<<SPrint(EBin("in", kk, EId("d")))>> : kk \in Keys} \cup
  {<<SPrint(ECall("len", <<EId("d")>>))>>}
StrOps ==
  {<<SPrint(EM(st, m, <<>>))>> : st \in StrE, m \in {"upper", "lower", "strip"}} \cup
  {<<SPrint(EM(EM(EId("s"), "strip", <<>>), "upper", <<>>))>>} \cup
  {<<SPrint(EM(Da, "join", <<EM(EStr(W3), "split", <<Cm>>)>>))>>,
   <<SPrint(ECall("len", <<EM(EStr(W3), "split", <<Cm>>)>>))>>,
   <<SPrint(EM(Da, "join", <<EM(EId("s"), "split", <<EStr(<<"sp">>)>>)>>))>>,
   <<SFor("w", EM(EStr(W3), "split", <<Cm>>), <<SPrint(EM(EId("w"), "upper", <<>>))>>)>>,
   <<SPrint(EM(EStr(W5), "replace", <<EStr(<<"a", "a">>), EStr(<<"b">>)>>))>>,
   <<SPrint(EM(EStr(W3), "replace", <<Cm, EStr(<<"da", "da">>)>>))>>,
   <<SPrint(EM(EId("s"), "replace", <<EStr(<<"sp">>), EStr(<<>>)>>))>>} \cup
  {<<SPrint(EM(EStr(W1), m, <<EStr(n)>>))>> : m \in {"startswith", "endswith", "contains"}, n \in {<<"a">>, <<"b">>, <<"a", "b">>, <<"b", "a">>, <<>>}} \cup
  {<<SPrint(EBin("+", EM(EStr(W1), "upper", <<>>), EId("s")))>>} \cup
  {<<SPrint(EBin(o, EStr(W1), EStr(W5)))>> : o \in {"<", "==", ">="}}
CompOps ==
  {(IF UsesF(el) THEN FDef ELSE <<>>) \o
   <<SAssign("inferred", "ys", "", EComp(el, "x", it, c)), SPrint(ECall("len", <<EId("ys")>>)), SFor("y", EId("ys"), <<SPrint(EId("y"))>>)>>
     : el \in Elems, it \in Iters, c \in Conds} \cup
  {<<SAssign("inferred", "dd", "", EDComp(EId("x"), el, "x", it, c)), SPrint(ECall("len", <<EId("dd")>>)), SPrint(EIdx(EId("dd"), EInt(2)))>>
     : el \in {EBin("*", EId("x"), EId("x")), H(EId("x"))}, it \in {EId("xs"), ERange(<<EInt(3)>>)}, c \in {<<>>, <<EBin("!=", EId("x"), EInt(1))>>}} \cup
  {<<SAssign("inferred", "us", "", EComp(EM(EId("w"), "upper", <<>>), "w", EM(EStr(W3), "split", <<Cm>>), <<>>)), SPrint(EM(Da, "join", <<EId("us")>>))>>}
ClosOps ==
  {FDef \o <<SPrint(ECallV("f", <<e>>))>> : e \in IntE} \cup
  {FDef \o <<SPrint(EBin("+", ECallV("f", <<H(EInt(1))>>), ECallV("f", <<H(EInt(2))>>)))>>} \cup
  {FDef \o <<SAssign("inferred", "g", "", EClos(<<"y">>, EBin("+", ECallV("f", <<EId("y")>>), EInt(1)))), SPrint(ECallV("g", <<EInt(1)>>))>>,
   <<SAssign("inferred", "g", "", EClos(<<"y">>, H(EId("y")))), SPrint(EBin("+", ECallV("g", <<EInt(1)>>), ECallV("g", <<EInt(2)>>)))>>}
FStrOps ==
  {<<SPrint(EFStr(ps))>> : ps \in {
      <<FS(<<"a">>), FE(ECall("len", <<EId("d")>>)), FS(<<"sp">>), FE(EId("s")), FS(<<"b">>)>>,
      <<FE(H(EInt(1))), FS(<<"da">>), FE(H(EInt(2)))>>,
      <<FE(EBin("<", EIdx(EId("xs"), EInt(1)), EInt(3))), FS(<<"cm">>), FE(EUn("-", EIdx(EId("xs"), EInt(0)))), FE(ECall("len", <<EId("xs")>>))>>,
      <<FS(W4), FE(EM(EStr(W1), "upper", <<>>))>>,
      <<FE(EIdx(EId("xs"), EInt(0))), FE(EIdx(EId("d"), EStr(<<"a">>)))>> }}
TupleOps ==
  {<<SAssign("inferred", "tp", "", ETuple(<<H(EInt(1)), EId("s"), H(EInt(2))>>)), SPrint(ETF(EId("tp"), i))>> : i \in {0, 1, 2}} \cup
  {<<SAssign("inferred", "ps", "", EList(<<ETuple(<<EInt(1), EStr(<<"a">>)>>), ETuple(<<EInt(2), EStr(<<"b">>)>>)>>)),
     SPrint(ETF(EIdx(EId("ps"), i), j))>> : i \in {EInt(0), EInt(1)}, j \in {0, 1}} \cup
  {<<SAssign("inferred", "ps", "", EList(<<ETuple(<<EInt(1), EStr(<<"a">>)>>), ETuple(<<EInt(2), EStr(<<"b">>)>>)>>)),
     SFor("p", EId("ps"), <<SPrint(ETF(EId("p"), 1)), SPrint(ETF(EId("p"), 0))>>)>>}
Menu == ListOps \cup DictOps \cup StrOps \cup CompOps \cup ClosOps \cup FStrOps \cup TupleOps
Fam(op) == CASE op \in ListOps -> "list" [] op \in DictOps -> "dict" [] op \in StrOps -> "str" [] op \in CompOps -> "comp"
             [] op \in ClosOps -> "closure" [] op \in FStrOps -> "fstr" [] OTHER -> "tuple"

CONSTANT MaxOps
VARIABLES ops, phase
vars == <<ops, phase>>
Init == ops = <<>> /\ phase = "build"
\* names an operation binds (an immutable binding cannot be bound twice in one scope)
Defs(op) == {op[i].name : i \in {j \in 1..Len(op) : op[j].k = "assign"}}
Add == /\ phase = "build" /\ Len(ops) < MaxOps
       /\ \E op \in Menu : (\A i \in 1..Len(ops) : Defs(op) \cap Defs(ops[i]) = {}) /\ ops' = Append(ops, op)
       /\ UNCHANGED phase
Finish == phase = "build" /\ ops # <<>> /\ phase' = "done" /\ UNCHANGED ops
Next == Add \/ Finish

RECURSIVE Flat(_)
Flat(ss) == IF ss = <<>> THEN <<>> ELSE ss[1] \o Flat(Tail(ss))
Body == Prelude \o Flat(ops) \o Dump
Prog == [consts |-> <<>>, fns |-> <<Helper, [name |-> "main", params |-> <<>>, ret |-> "none", body |-> Body]>>]
Res == Run(Prog)
\* every generated program has a specified behaviour or is one of the declared unspecified situations
Sound == phase = "done" => Res.status \in {"done", "error"}
Emit == (phase = "done" /\ Specified(Res)) =>
          PrintT(<<"CASE", ToJson([body |-> Body, out |-> Res.out, status |-> Res.status, err |-> Res.err,
                                   feats |-> {"coll:" \o Fam(ops[i]) : i \in 1..Len(ops)}, nops |-> Len(ops)])>>)
=============================================================================
