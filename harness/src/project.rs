//! Abstraction functions: real AST / tokens / diagnostics -> JSON (spans dropped from the AST;
//! kept for diagnostics). Written by exhaustive `match` so a new node kind fails to compile.

use incan_syntax::ast::*;
use incan_syntax::diagnostics::CompileError;
use serde_json::{json, Value};

fn opt<T>(o: &Option<T>, f: impl Fn(&T) -> Value) -> Value {
    match o {
        Some(x) => json!([f(x)]),
        None => json!([]),
    }
}
fn list<T>(v: &[T], f: impl Fn(&T) -> Value) -> Value {
    Value::Array(v.iter().map(f).collect())
}
fn vis(v: &Visibility) -> bool {
    matches!(v, Visibility::Public)
}

pub fn program(p: &Program) -> Value {
    json!({"k":"program","decls": list(&p.declarations, |d| decl(&d.node))})
}

pub fn import_path(p: &ImportPath) -> Value {
    json!({"parents": p.parent_levels, "abs": p.is_absolute, "segs": p.segments})
}
fn import_item(i: &ImportItem) -> Value {
    json!({"name": i.name, "alias": opt(&i.alias, |a| json!(a))})
}

pub fn decl(d: &Declaration) -> Value {
    match d {
        Declaration::Import(i) => {
            let alias = opt(&i.alias, |a| json!(a));
            match &i.kind {
                ImportKind::Module(p) => json!({"k":"import","ik":"module","path":import_path(p),"alias":alias}),
                ImportKind::From { module, items } => {
                    json!({"k":"import","ik":"from","path":import_path(module),"items":list(items, import_item),"alias":alias})
                }
                ImportKind::Python(s) => json!({"k":"import","ik":"python","sv":s,"alias":alias}),
                ImportKind::RustCrate { crate_name, path } => {
                    json!({"k":"import","ik":"rustcrate","crate":crate_name,"segs":path,"alias":alias})
                }
                ImportKind::RustFrom { crate_name, path, items } => {
                    json!({"k":"import","ik":"rustfrom","crate":crate_name,"segs":path,"items":list(items, import_item),"alias":alias})
                }
            }
        }
        Declaration::Const(c) => json!({"k":"const","pub":vis(&c.visibility),"name":c.name,
            "ty":opt(&c.ty, |t| ty(&t.node)),"e":expr(&c.value.node)}),
        Declaration::Model(m) => json!({"k":"model","pub":vis(&m.visibility),"decos":list(&m.decorators, |d| deco(&d.node)),
            "name":m.name,"tparams":m.type_params,"traits":list(&m.traits, |t| json!(t.node)),
            "fields":list(&m.fields, |f| field(&f.node)),"methods":list(&m.methods, |x| method(&x.node))}),
        Declaration::Class(m) => json!({"k":"class","pub":vis(&m.visibility),"decos":list(&m.decorators, |d| deco(&d.node)),
            "name":m.name,"tparams":m.type_params,"extends":opt(&m.extends, |e| json!(e)),
            "traits":list(&m.traits, |t| json!(t.node)),
            "fields":list(&m.fields, |f| field(&f.node)),"methods":list(&m.methods, |x| method(&x.node))}),
        Declaration::Trait(t) => json!({"k":"trait","pub":vis(&t.visibility),"decos":list(&t.decorators, |d| deco(&d.node)),
            "name":t.name,"tparams":t.type_params,"methods":list(&t.methods, |x| method(&x.node))}),
        Declaration::Newtype(n) => json!({"k":"newtype","pub":vis(&n.visibility),"name":n.name,
            "ty":ty(&n.underlying.node),"methods":list(&n.methods, |x| method(&x.node))}),
        Declaration::Enum(e) => json!({"k":"enum","pub":vis(&e.visibility),"name":e.name,"tparams":e.type_params,
            "variants":list(&e.variants, |v| json!({"name":v.node.name,"tys":list(&v.node.fields, |t| ty(&t.node))}))}),
        Declaration::Function(f) => json!({"k":"fn","pub":vis(&f.visibility),"decos":list(&f.decorators, |d| deco(&d.node)),
            "async":f.is_async,"name":f.name,"tparams":f.type_params,"params":list(&f.params, |p| param(&p.node)),
            "ret":ty(&f.return_type.node),"body":block(&f.body)}),
        Declaration::Docstring(s) => json!({"k":"doc","sv":s}),
    }
}

fn field(f: &FieldDecl) -> Value {
    json!({"k":"field","pub":vis(&f.visibility),"name":f.name,"ty":ty(&f.ty.node),"default":opt(&f.default, |e| expr(&e.node))})
}
fn param(p: &Param) -> Value {
    json!({"k":"param","mut":p.is_mut,"name":p.name,"ty":ty(&p.ty.node),"default":opt(&p.default, |e| expr(&e.node))})
}
fn method(m: &MethodDecl) -> Value {
    let recv = match m.receiver {
        None => "none",
        Some(Receiver::Immutable) => "self",
        Some(Receiver::Mutable) => "mutself",
    };
    json!({"k":"method","decos":list(&m.decorators, |d| deco(&d.node)),"async":m.is_async,"name":m.name,"recv":recv,
        "params":list(&m.params, |p| param(&p.node)),"ret":ty(&m.return_type.node),
        "mbody":opt(&m.body, |b| block(b))})
}
fn deco(d: &Decorator) -> Value {
    json!({"k":"deco","name":d.name,"dargs":list(&d.args, |a| match a {
        DecoratorArg::Positional(e) => json!({"ak":"pos","e":expr(&e.node)}),
        DecoratorArg::Named(n, DecoratorArgValue::Type(t)) => json!({"ak":"named","name":n,"vk":"type","ty":ty(&t.node)}),
        DecoratorArg::Named(n, DecoratorArgValue::Expr(e)) => json!({"ak":"named","name":n,"vk":"expr","e":expr(&e.node)}),
    })})
}

pub fn ty(t: &Type) -> Value {
    match t {
        Type::Simple(n) => json!({"k":"tsimple","name":n}),
        Type::Generic(n, a) => json!({"k":"tgeneric","name":n,"targs":list(a, |x| ty(&x.node))}),
        Type::Function(p, r) => json!({"k":"tfn","targs":list(p, |x| ty(&x.node)),"ret":ty(&r.node)}),
        Type::Unit => json!({"k":"tunit"}),
        Type::Tuple(a) => json!({"k":"ttuple","targs":list(a, |x| ty(&x.node))}),
        Type::SelfType => json!({"k":"tself"}),
    }
}

pub fn block(b: &[Spanned<Statement>]) -> Value {
    list(b, |s| stmt(&s.node))
}
fn bk(b: &BindingKind) -> &'static str {
    match b {
        BindingKind::Inferred => "inferred",
        BindingKind::Let => "let",
        BindingKind::Mutable => "mut",
        BindingKind::Reassign => "REASSIGN",
    }
}

pub fn stmt(s: &Statement) -> Value {
    match s {
        Statement::Assignment(a) => json!({"k":"assign","bk":bk(&a.binding),"name":a.name,
            "ty":opt(&a.ty, |t| ty(&t.node)),"e":expr(&a.value.node)}),
        Statement::FieldAssignment(a) => json!({"k":"fassign","obj":expr(&a.object.node),"field":a.field,"e":expr(&a.value.node)}),
        Statement::IndexAssignment(a) => json!({"k":"iassign","obj":expr(&a.object.node),"idx":expr(&a.index.node),"e":expr(&a.value.node)}),
        Statement::Return(e) => json!({"k":"return","e":opt(e, |e| expr(&e.node))}),
        Statement::If(i) => json!({"k":"if","cond":expr(&i.condition.node),"then":block(&i.then_body),
            "elifs":list(&i.elif_branches, |(c, b)| json!({"cond":expr(&c.node),"body":block(b)})),
            "else":opt(&i.else_body, |b| block(b))}),
        Statement::While(w) => json!({"k":"while","cond":expr(&w.condition.node),"body":block(&w.body)}),
        Statement::For(f) => json!({"k":"for","var":f.var,"iter":expr(&f.iter.node),"body":block(&f.body)}),
        Statement::Expr(e) => json!({"k":"expr","e":expr(&e.node)}),
        Statement::Pass => json!({"k":"pass"}),
        Statement::Break => json!({"k":"break"}),
        Statement::Continue => json!({"k":"continue"}),
        Statement::CompoundAssignment(c) => {
            let op = match c.op {
                CompoundOp::Add => "+=",
                CompoundOp::Sub => "-=",
                CompoundOp::Mul => "*=",
                CompoundOp::Div => "/=",
                CompoundOp::FloorDiv => "//=",
                CompoundOp::Mod => "%=",
            };
            json!({"k":"compound","name":c.name,"op":op,"e":expr(&c.value.node)})
        }
        Statement::TupleUnpack(t) => json!({"k":"unpack","bk":bk(&t.binding),"names":t.names,"e":expr(&t.value.node)}),
        Statement::TupleAssign(t) => json!({"k":"tassign","targets":list(&t.targets, |e| expr(&e.node)),"e":expr(&t.value.node)}),
        Statement::ChainedAssignment(c) => json!({"k":"chained","bk":bk(&c.binding),"targets":c.targets,"e":expr(&c.value.node)}),
    }
}

pub fn lit(l: &Literal) -> Value {
    match l {
        Literal::Int(i) => json!({"k":"lit","lk":"int","iv":i}),
        Literal::Float(f) => json!({"k":"lit","lk":"float","bits":f.to_bits().to_string(),"ftxt":format!("{f:?}")}),
        Literal::String(s) => json!({"k":"lit","lk":"str","sv":s}),
        Literal::Bytes(b) => json!({"k":"lit","lk":"bytes","bytes":b}),
        Literal::Bool(b) => json!({"k":"lit","lk":"bool","bv":b}),
        Literal::None => json!({"k":"lit","lk":"none"}),
    }
}
fn call_arg(a: &CallArg) -> Value {
    match a {
        CallArg::Positional(e) => json!({"ak":"pos","e":expr(&e.node)}),
        CallArg::Named(n, e) => json!({"ak":"named","name":n,"e":expr(&e.node)}),
    }
}
fn bx(e: &Spanned<Expr>) -> Value {
    expr(&e.node)
}

pub fn expr(e: &Expr) -> Value {
    match e {
        Expr::Ident(n) => json!({"k":"ident","name":n}),
        Expr::Literal(l) => lit(l),
        Expr::SelfExpr => json!({"k":"self"}),
        Expr::Binary(l, op, r) => json!({"k":"bin","op":format!("{op}"),"l":bx(l),"r":bx(r)}),
        Expr::Unary(op, x) => json!({"k":"un","op": match op { UnaryOp::Neg => "-", UnaryOp::Not => "not" },"e":bx(x)}),
        Expr::Call(f, a) => json!({"k":"call","f":bx(f),"args":list(a, call_arg)}),
        Expr::Index(o, i) => json!({"k":"index","obj":bx(o),"idx":bx(i)}),
        Expr::Slice(o, s) => json!({"k":"slice","obj":bx(o),
            "start":opt(&s.start, |x| bx(x)),"end":opt(&s.end, |x| bx(x)),"step":opt(&s.step, |x| bx(x))}),
        Expr::Field(o, f) => json!({"k":"fieldx","obj":bx(o),"field":f}),
        Expr::MethodCall(o, m, a) => json!({"k":"mcall","recv":bx(o),"name":m,"args":list(a, call_arg)}),
        Expr::Await(x) => json!({"k":"await","e":bx(x)}),
        Expr::Try(x) => json!({"k":"try","e":bx(x)}),
        Expr::Match(s, arms) => json!({"k":"match","subj":bx(s),"arms":list(arms, |a| arm(&a.node))}),
        Expr::If(i) => json!({"k":"ifx","cond":expr(&i.condition.node),"then":block(&i.then_body),
            "else":opt(&i.else_body, |b| block(b))}),
        Expr::ListComp(c) => json!({"k":"listcomp","e":expr(&c.expr.node),"var":c.var,"iter":expr(&c.iter.node),
            "filter":opt(&c.filter, |f| expr(&f.node))}),
        Expr::DictComp(c) => json!({"k":"dictcomp","key":expr(&c.key.node),"val":expr(&c.value.node),"var":c.var,
            "iter":expr(&c.iter.node),"filter":opt(&c.filter, |f| expr(&f.node))}),
        Expr::Closure(p, b) => json!({"k":"closure","params":list(p, |x| param(&x.node)),"e":bx(b)}),
        Expr::Tuple(x) => json!({"k":"tuple","items":list(x, bx)}),
        Expr::List(x) => json!({"k":"list","items":list(x, bx)}),
        Expr::Dict(x) => json!({"k":"dict","pairs":list(x, |(k, v)| json!({"key":bx(k),"val":bx(v)}))}),
        Expr::Set(x) => json!({"k":"set","items":list(x, bx)}),
        Expr::Paren(x) => json!({"k":"paren","e":bx(x)}),
        Expr::Constructor(n, a) => json!({"k":"CONSTRUCTOR","name":n,"args":list(a, call_arg)}),
        Expr::FString(parts) => json!({"k":"fstr","parts":list(parts, |p| match p {
            FStringPart::Literal(s) => json!({"pk":"lit","sv":s}),
            FStringPart::Expr(e) => json!({"pk":"expr","e":bx(e)}),
        })}),
        Expr::Yield(x) => json!({"k":"yield","e":opt(x, |e| bx(e))}),
        Expr::Range { start, end, inclusive } => json!({"k":"range","start":bx(start),"end":bx(end),"incl":inclusive}),
    }
}

fn arm(a: &MatchArm) -> Value {
    let (abk, e, body) = match &a.body {
        MatchBody::Expr(e) => ("expr", json!([bx(e)]), json!([])),
        MatchBody::Block(b) => ("block", json!([]), block(b)),
    };
    json!({"k":"arm","pat":pat(&a.pattern.node),"guard":opt(&a.guard, |g| expr(&g.node)),"abk":abk,"e":e,"body":body})
}
pub fn pat(p: &Pattern) -> Value {
    match p {
        Pattern::Wildcard => json!({"k":"pwild"}),
        Pattern::Binding(n) => json!({"k":"pbind","name":n}),
        Pattern::Literal(l) => json!({"k":"plit","lit":lit(l)}),
        Pattern::Constructor(n, ps) => json!({"k":"pctor","name":n,"pats":list(ps, |x| pat(&x.node))}),
        Pattern::Tuple(ps) => json!({"k":"ptuple","pats":list(ps, |x| pat(&x.node))}),
    }
}

pub fn diag(e: &CompileError) -> Value {
    json!({"msg": e.message, "start": e.span.start, "end": e.span.end, "kind": format!("{}", e.kind),
           "notes": e.notes, "hints": e.hints})
}
