//! Front end + formatter + emitter ops: lex, parse, check, fmt, emit, pipeline (totality).

use crate::project;
use crate::{guarded_timeout, panic_json};
use incan::frontend::typechecker::TypeChecker;
use incan_syntax::lexer::{self, Token, TokenKind};
use incan_syntax::parser;
use serde_json::{json, Map, Value};

const LIMIT_MS: u64 = 10_000;

pub fn tok_class(t: &TokenKind) -> String {
    match t {
        TokenKind::Newline => "NEWLINE".into(),
        TokenKind::Indent => "INDENT".into(),
        TokenKind::Dedent => "DEDENT".into(),
        TokenKind::Eof => "EOF".into(),
        TokenKind::Punctuation(p) => {
            let d = format!("{p:?}");
            if d == "LParen" || d == "LBracket" || d == "LBrace" {
                "OPEN".into()
            } else if d == "RParen" || d == "RBracket" || d == "RBrace" {
                "CLOSE".into()
            } else {
                "ATOM".into()
            }
        }
        _ => "ATOM".into(),
    }
}
pub fn tok_detail(t: &TokenKind) -> String {
    match t {
        TokenKind::Keyword(k) => format!("kw:{k:?}"),
        TokenKind::Operator(o) => format!("op:{o:?}"),
        TokenKind::Punctuation(p) => format!("punct:{p:?}"),
        TokenKind::Ident(s) => format!("ident:{s}"),
        TokenKind::Int(i) => format!("int:{i}"),
        TokenKind::Float(f) => format!("float:{f:?}"),
        TokenKind::String(s) => format!("str:{s:?}"),
        TokenKind::Bytes(b) => format!("bytes:{b:?}"),
        TokenKind::FString(p) => format!("fstr:{p:?}"),
        TokenKind::Newline => "NEWLINE".into(),
        TokenKind::Indent => "INDENT".into(),
        TokenKind::Dedent => "DEDENT".into(),
        TokenKind::Ellipsis => "ellipsis".into(),
        TokenKind::Eof => "EOF".into(),
    }
}

fn src_of(req: &Value) -> String {
    if let Some(s) = req.get("src").and_then(|x| x.as_str()) {
        s.to_string()
    } else {
        crate::kernels::seq_string(&req["doc"])
    }
}

fn lex_json(src: &str, detail: bool) -> (Option<Vec<Token>>, Value) {
    match lexer::lex(src) {
        Ok(toks) => {
            let classes: Vec<String> = toks.iter().map(|t| tok_class(&t.kind)).collect();
            let mut o = json!({"ok": true, "classes": classes,
                "spans": toks.iter().map(|t| json!([t.span.start, t.span.end])).collect::<Vec<_>>()});
            if detail {
                o["detail"] = json!(toks.iter().map(|t| tok_detail(&t.kind)).collect::<Vec<_>>());
            }
            (Some(toks), o)
        }
        Err(errs) => (None, json!({"ok": false, "errs": errs.iter().map(project::diag).collect::<Vec<_>>()})),
    }
}

fn op_lex(req: &Value) -> Value {
    let src = src_of(req);
    let detail = req.get("detail").and_then(|x| x.as_bool()).unwrap_or(false);
    match guarded_timeout(LIMIT_MS, move || lex_json(&src, detail).1) {
        Ok(v) => json!({"obs": v}),
        Err(e) => json!({"obs": panic_json(e)}),
    }
}

pub fn parse_src(src: &str) -> Result<incan_syntax::ast::Program, Value> {
    let toks = lexer::lex(src)
        .map_err(|errs| json!({"stage":"lex","errs": errs.iter().map(project::diag).collect::<Vec<_>>()}))?;
    parser::parse(&toks)
        .map_err(|errs| json!({"stage":"parse","errs": errs.iter().map(project::diag).collect::<Vec<_>>()}))
}

fn digest_str(s: &str) -> String {
    use std::hash::{Hash, Hasher};
    let mut h = std::collections::hash_map::DefaultHasher::new();
    s.hash(&mut h);
    format!("{:016x}", h.finish())
}

fn op_parse(req: &Value) -> Value {
    let src = src_of(req);
    let digest = req.get("digest").and_then(|x| x.as_bool()).unwrap_or(false);
    match guarded_timeout(LIMIT_MS, move || match parse_src(&src) {
        Ok(p) if digest => json!({"ok": true, "h": digest_str(&project::program(&p).to_string()),
                                  "ndecls": p.declarations.len()}),
        Ok(p) => json!({"ok": true, "ast": project::program(&p)}),
        Err(e) => json!({"ok": false, "err": e}),
    }) {
        Ok(v) => json!({"obs": v}),
        Err(e) => json!({"obs": panic_json(e)}),
    }
}

fn const_value_json(v: &incan::frontend::typechecker::ConstValue) -> Value {
    use incan::frontend::typechecker::ConstValue as C;
    match v {
        C::Int(i) => json!({"t":"int","v":i}),
        C::Float(f) => json!({"t":"float","f":f,"bits":f.to_bits().to_string()}),
        C::Bool(b) => json!({"t":"bool","v":b}),
        C::FrozenStr(s) => json!({"t":"str","v":s}),
        C::FrozenBytes(b) => json!({"t":"bytes","v":b}),
    }
}

/// {"op":"check","src":..., "deps":[{"name":..,"src":..}]}
fn op_check(req: &Value) -> Value {
    let src = src_of(req);
    let deps: Vec<(String, String)> = req
        .get("deps")
        .and_then(|d| d.as_array())
        .map(|a| {
            a.iter()
                .map(|d| {
                    (
                        d["name"].as_str().unwrap_or("").to_string(),
                        d["src"].as_str().unwrap_or("").to_string(),
                    )
                })
                .collect()
        })
        .unwrap_or_default();
    let r = guarded_timeout(LIMIT_MS, move || {
        let prog = match parse_src(&src) {
            Ok(p) => p,
            Err(e) => return json!({"ok": false, "stage": e["stage"], "errs": e["errs"]}),
        };
        let mut dep_asts = Vec::new();
        for (n, s) in &deps {
            match parse_src(s) {
                Ok(p) => dep_asts.push((n.clone(), p)),
                Err(e) => return json!({"ok": false, "stage": "dep", "dep": n, "errs": e["errs"]}),
            }
        }
        let dep_refs: Vec<(&str, &incan_syntax::ast::Program)> =
            dep_asts.iter().map(|(n, p)| (n.as_str(), p)).collect();
        let mut tc = TypeChecker::new();
        let res = tc.check_with_imports(&prog, &dep_refs);
        let info = tc.type_info();
        let mut consts = Map::new();
        for (k, v) in &info.const_values {
            consts.insert(k.clone(), const_value_json(v));
        }
        let mut ckinds = Map::new();
        for (k, v) in &info.const_kinds {
            ckinds.insert(k.clone(), json!(format!("{v:?}")));
        }
        // the type the checker recorded for each const initializer (root expression span)
        let mut ctypes = Map::new();
        for d in &prog.declarations {
            if let incan_syntax::ast::Declaration::Const(c) = &d.node {
                if let Some(t) = info.expr_type(c.value.span) {
                    ctypes.insert(c.name.clone(), json!(t.to_string()));
                }
            }
        }
        match res {
            Ok(()) => json!({"ok": true, "consts": consts, "const_kinds": ckinds, "const_types": ctypes}),
            Err(errs) => json!({"ok": false, "stage": "check", "consts": consts, "const_types": ctypes,
                "errs": errs.iter().map(project::diag).collect::<Vec<_>>()}),
        }
    });
    match r {
        Ok(v) => json!({"obs": v}),
        Err(e) => json!({"obs": panic_json(e)}),
    }
}

fn op_fmt(req: &Value) -> Value {
    let src = src_of(req);
    let r = guarded_timeout(LIMIT_MS, move || match incan::format_source(&src) {
        Ok(s) => json!({"ok": true, "text": s}),
        Err(e) => json!({"ok": false, "err": format!("{e}")}),
    });
    match r {
        Ok(v) => json!({"obs": v}),
        Err(e) => json!({"obs": panic_json(e)}),
    }
}

/// fmt + reparse + second fmt in one call (C08/C09):
/// -> {parse1: ast|err, fmt1: text|err, parse2: ast|err, fmt2: text|err}
fn op_fmt_roundtrip(req: &Value) -> Value {
    let src = src_of(req);
    let want_ast = req.get("want_ast").and_then(|x| x.as_bool()).unwrap_or(true);
    let r = guarded_timeout(LIMIT_MS, move || {
        let mut o = Map::new();
        let a1 = match parse_src(&src) {
            Ok(p) => project::program(&p),
            Err(e) => {
                o.insert("parse1_err".into(), e);
                return Value::Object(o);
            }
        };
        let f1 = match incan::format_source(&src) {
            Ok(s) => s,
            Err(e) => {
                o.insert("fmt1_err".into(), json!(format!("{e}")));
                return Value::Object(o);
            }
        };
        o.insert("fmt1".into(), json!(f1));
        match parse_src(&f1) {
            Ok(p) => {
                let a2 = project::program(&p);
                o.insert("ast_equal".into(), json!(a1 == a2));
                if a1 != a2 && want_ast {
                    o.insert("ast1".into(), a1);
                    o.insert("ast2".into(), a2);
                }
            }
            Err(e) => {
                o.insert("parse2_err".into(), e);
                if want_ast {
                    o.insert("ast1".into(), a1);
                }
            }
        }
        match incan::format_source(&f1) {
            Ok(s) => {
                o.insert("idempotent".into(), json!(s == f1));
                if s != f1 {
                    o.insert("fmt2".into(), json!(s));
                }
            }
            Err(e) => {
                o.insert("fmt2_err".into(), json!(format!("{e}")));
            }
        }
        Value::Object(o)
    });
    match r {
        Ok(v) => json!({"obs": v}),
        Err(e) => json!({"obs": panic_json(e)}),
    }
}

fn gen_err_json(e: &incan::backend::ir::codegen::GenerationError) -> Value {
    use incan::backend::ir::codegen::GenerationError as G;
    match e {
        G::TypeCheck(errs) => json!({"stage":"check","errs": errs.iter().map(project::diag).collect::<Vec<_>>()}),
        G::Lowering(l) => json!({"stage":"lower","msg": format!("{l}")}),
        G::Emission(m) => json!({"stage":"emit","msg": format!("{m}")}),
    }
}

/// {"op":"emit","src":...,"deps":[...]} -> generated Rust text of the main module (single-file mode
/// when there are no deps).
fn op_emit(req: &Value) -> Value {
    let src = src_of(req);
    let r = guarded_timeout(LIMIT_MS, move || {
        let prog = match parse_src(&src) {
            Ok(p) => p,
            Err(e) => return json!({"ok": false, "stage": e["stage"], "errs": e["errs"]}),
        };
        let cg = incan::IrCodegen::new();
        match cg.try_generate(&prog) {
            Ok(code) => json!({"ok": true, "rust": code}),
            Err(e) => {
                let mut v = gen_err_json(&e);
                v["ok"] = json!(false);
                v
            }
        }
    });
    match r {
        Ok(v) => json!({"obs": v}),
        Err(e) => json!({"obs": panic_json(e)}),
    }
}

fn diag_ok(d: &Value, src: &str) -> Option<String> {
    let s = d["start"].as_u64().unwrap_or(u64::MAX) as usize;
    let e = d["end"].as_u64().unwrap_or(u64::MAX) as usize;
    if s > e {
        return Some(format!("start {s} > end {e}"));
    }
    if e > src.len() {
        return Some(format!("end {e} > len {}", src.len()));
    }
    if !src.is_char_boundary(s) || !src.is_char_boundary(e) {
        return Some(format!("span {s}..{e} not on char boundaries"));
    }
    None
}

/// Totality monitor (C11): run every stage on one input, each guarded; check DiagOK for every
/// diagnostic and render each for the terminal and the editor.
fn op_pipeline(req: &Value) -> Value {
    use incan::lsp::diagnostics::compile_error_to_diagnostic;
    use incan_syntax::diagnostics::format_error;
    let src = src_of(req);
    let mut stages = Map::new();
    let mut problems: Vec<Value> = Vec::new();
    let mut all_diags: Vec<incan_syntax::diagnostics::CompileError> = Vec::new();

    // lex
    let s1 = src.clone();
    let lexed = guarded_timeout(LIMIT_MS, move || lexer::lex(&s1));
    let toks = match lexed {
        Ok(Ok(t)) => {
            stages.insert("lex".into(), json!("ok"));
            Some(t)
        }
        Ok(Err(errs)) => {
            stages.insert("lex".into(), json!("err"));
            if errs.is_empty() {
                problems.push(json!({"stage":"lex","problem":"empty error list"}));
            }
            all_diags.extend(errs);
            None
        }
        Err(p) => {
            stages.insert("lex".into(), json!("panic"));
            problems.push(json!({"stage":"lex","problem":"panic","panic":p.0,"at":p.1}));
            None
        }
    };
    // parse
    let mut prog = None;
    if let Some(t) = toks {
        let parsed = guarded_timeout(LIMIT_MS, move || parser::parse(&t));
        match parsed {
            Ok(Ok(p)) => {
                stages.insert("parse".into(), json!("ok"));
                prog = Some(p);
            }
            Ok(Err(errs)) => {
                stages.insert("parse".into(), json!("err"));
                if errs.is_empty() {
                    problems.push(json!({"stage":"parse","problem":"empty error list"}));
                }
                all_diags.extend(errs);
            }
            Err(p) => {
                stages.insert("parse".into(), json!("panic"));
                problems.push(json!({"stage":"parse","problem":"panic","panic":p.0,"at":p.1}));
            }
        }
    }
    // check
    if let Some(p) = prog.clone() {
        let checked = guarded_timeout(LIMIT_MS, move || {
            let mut tc = TypeChecker::new();
            tc.check_program(&p)
        });
        match checked {
            Ok(Ok(())) => {
                stages.insert("check".into(), json!("ok"));
            }
            Ok(Err(errs)) => {
                stages.insert("check".into(), json!("err"));
                if errs.is_empty() {
                    problems.push(json!({"stage":"check","problem":"empty error list"}));
                }
                all_diags.extend(errs);
            }
            Err(p) => {
                stages.insert("check".into(), json!("panic"));
                problems.push(json!({"stage":"check","problem":"panic","panic":p.0,"at":p.1}));
            }
        }
    }
    // fmt (does its own lex+parse)
    {
        let s2 = src.clone();
        match guarded_timeout(LIMIT_MS, move || incan::format_source(&s2).map_err(|e| format!("{e}"))) {
            Ok(Ok(_)) => {
                stages.insert("fmt".into(), json!("ok"));
            }
            Ok(Err(m)) => {
                stages.insert("fmt".into(), json!("err"));
                if m.trim().is_empty() {
                    problems.push(json!({"stage":"fmt","problem":"empty error"}));
                }
            }
            Err(p) => {
                stages.insert("fmt".into(), json!("panic"));
                problems.push(json!({"stage":"fmt","problem":"panic","panic":p.0,"at":p.1}));
            }
        }
    }
    // emit
    if let Some(p) = prog {
        let emitted = guarded_timeout(LIMIT_MS, move || {
            let cg = incan::IrCodegen::new();
            match cg.try_generate(&p) {
                Ok(_) => Ok(()),
                Err(e) => {
                    let diags = match &e {
                        incan::backend::ir::codegen::GenerationError::TypeCheck(errs) => errs.clone(),
                        _ => Vec::new(),
                    };
                    Err((format!("{e}"), diags))
                }
            }
        });
        match emitted {
            Ok(Ok(())) => {
                stages.insert("emit".into(), json!("ok"));
            }
            Ok(Err((m, _))) => {
                stages.insert("emit".into(), json!("err"));
                if m.trim().is_empty() {
                    problems.push(json!({"stage":"emit","problem":"empty error"}));
                }
            }
            Err(p) => {
                stages.insert("emit".into(), json!("panic"));
                problems.push(json!({"stage":"emit","problem":"panic","panic":p.0,"at":p.1}));
            }
        }
    }
    // diagnostics well-formedness + rendering
    let url = tower_lsp::lsp_types::Url::parse("file:///verif/doc.incn").ok();
    let ndiags = all_diags.len();
    for d in all_diags {
        let dj = project::diag(&d);
        if let Some(why) = diag_ok(&dj, &src) {
            problems.push(json!({"stage":"diag","problem":"span","why":why,"diag":dj}));
        }
        let s3 = src.clone();
        let d2 = d.clone();
        let u2 = url.clone();
        match guarded_timeout(LIMIT_MS, move || {
            let t = format_error("f.incn", &s3, &d2);
            let r = u2.map(|u| compile_error_to_diagnostic(&d2, &s3, &u).range);
            (t.len(), r)
        }) {
            Ok((_, Some(r))) => {
                if (r.start.line, r.start.character) > (r.end.line, r.end.character) {
                    problems.push(json!({"stage":"render","problem":"range start > end","diag":dj}));
                }
            }
            Ok((_, None)) => {}
            Err(p) => {
                problems.push(json!({"stage":"render","problem":"panic","panic":p.0,"at":p.1,"diag":dj}));
            }
        }
    }
    json!({"obs": {"stages": stages, "problems": problems, "ndiags": ndiags}})
}

pub fn dispatch(op: &str, req: &Value) -> Option<Value> {
    Some(match op {
        "lex" => op_lex(req),
        "parse" => op_parse(req),
        "check" => op_check(req),
        "fmt" => op_fmt(req),
        "fmt_roundtrip" => op_fmt_roundtrip(req),
        "emit" => op_emit(req),
        "pipeline" => op_pipeline(req),
        _ => return None,
    })
}
