//! Conformance harness: binds the TLA+ specification in /verif/spec to the real
//! code in /repo. Every op reads one JSON object and returns one JSON object;
//! panics of the code under test are data (`{"panic": "<message>"}`).

pub mod kernels;
pub mod positions;
pub mod front;
pub mod project;
pub mod modules;
pub mod manifest;

use serde_json::{json, Value};
use std::cell::RefCell;
use std::panic::{self, AssertUnwindSafe};

thread_local! {
    static LAST_PANIC: RefCell<Option<String>> = const { RefCell::new(None) };
}

/// Install a panic hook that records the panic message instead of printing it.
pub fn install_quiet_panic_hook() {
    panic::set_hook(Box::new(|info| {
        let msg = if let Some(s) = info.payload().downcast_ref::<&str>() {
            (*s).to_string()
        } else if let Some(s) = info.payload().downcast_ref::<String>() {
            s.clone()
        } else {
            "<non-string panic payload>".to_string()
        };
        let loc = info
            .location()
            .map(|l| format!("{}:{}", l.file(), l.line()))
            .unwrap_or_default();
        LAST_PANIC.with(|p| *p.borrow_mut() = Some(format!("{msg}\u{1}{loc}")));
    }));
}

/// Run `f`, converting a panic into `Err((message, location))`.
pub fn guarded<T>(f: impl FnOnce() -> T) -> Result<T, (String, String)> {
    LAST_PANIC.with(|p| *p.borrow_mut() = None);
    match panic::catch_unwind(AssertUnwindSafe(f)) {
        Ok(v) => Ok(v),
        Err(_) => {
            let raw = LAST_PANIC.with(|p| p.borrow_mut().take()).unwrap_or_default();
            let mut it = raw.splitn(2, '\u{1}');
            let msg = it.next().unwrap_or("").to_string();
            let loc = it.next().unwrap_or("").to_string();
            Err((msg, loc))
        }
    }
}

/// Like `guarded`, but in a separate thread with a big stack and a wall-clock limit.
/// Returns Err(("TIMEOUT", "")) when the limit is exceeded (the thread is leaked).
pub fn guarded_timeout<T: Send + 'static>(
    ms: u64,
    f: impl FnOnce() -> T + Send + 'static,
) -> Result<T, (String, String)> {
    use std::sync::mpsc;
    let (tx, rx) = mpsc::channel();
    let builder = std::thread::Builder::new().stack_size(256 * 1024 * 1024);
    let handle = builder.spawn(move || {
        let r = guarded(f);
        let _ = tx.send(r);
    });
    if handle.is_err() {
        return Err(("SPAWN-FAILED".into(), String::new()));
    }
    match rx.recv_timeout(std::time::Duration::from_millis(ms)) {
        Ok(r) => r,
        Err(mpsc::RecvTimeoutError::Timeout) => Err(("TIMEOUT".into(), String::new())),
        Err(mpsc::RecvTimeoutError::Disconnected) => Err(("ABORTED".into(), String::new())),
    }
}

pub fn panic_json(e: (String, String)) -> Value {
    json!({"panic": e.0, "at": e.1})
}

pub fn dispatch(req: &Value) -> Value {
    let op = req.get("op").and_then(|v| v.as_str()).unwrap_or("");
    let mut out = if let Some(v) = kernels::dispatch(op, req) {
        v
    } else if let Some(v) = positions::dispatch(op, req) {
        v
    } else if let Some(v) = front::dispatch(op, req) {
        v
    } else if let Some(v) = modules::dispatch(op, req) {
        v
    } else if let Some(v) = manifest::dispatch(op, req) {
        v
    } else {
        json!({"tool_error": format!("unknown op {op}")})
    };
    if let (Some(id), Some(obj)) = (req.get("id"), out.as_object_mut()) {
        obj.insert("id".into(), id.clone());
    }
    out
}
