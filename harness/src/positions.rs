//! C19: position/offset conversion tables of the real LSP code for one document.

use crate::kernels::seq_string;
use crate::{guarded, panic_json};
use incan::lsp::diagnostics::{compile_error_to_diagnostic, offset_to_position, position_to_offset, span_to_range};
use incan_syntax::ast::Span;
use incan_syntax::diagnostics::{format_error, CompileError};
use serde_json::{json, Value};
use tower_lsp::lsp_types::{Position, Url};

/// {"op":"pos_tables","doc":[scalar ids],"w":W}
/// -> o2p: [[line,ch] for off in 0..=bytes+2]
///    p2o: [[off or -1 for ch in 0..=W] for line in 0..=W]
///    s2r: [[[sl,sc,el,ec] for e in 0..=bytes+2] for s in 0..=bytes+2]
///    term: [[line(1-based) or -1 on panic] ... same spans]   (terminal renderer; must not panic)
fn op_pos_tables(req: &Value) -> Value {
    let doc = seq_string(&req["doc"]);
    let w = req.get("w").and_then(|x| x.as_u64()).unwrap_or(6) as u32;
    let n = doc.len() + 2;
    let r = guarded(|| {
        let o2p: Vec<Value> = (0..=n)
            .map(|o| {
                let p = offset_to_position(&doc, o);
                json!([p.line, p.character])
            })
            .collect();
        let p2o: Vec<Value> = (0..=w)
            .map(|l| {
                Value::Array(
                    (0..=w)
                        .map(|c| match position_to_offset(&doc, Position::new(l, c)) {
                            Some(o) => json!(o),
                            None => json!(-1),
                        })
                        .collect(),
                )
            })
            .collect();
        let s2r: Vec<Value> = (0..=n)
            .map(|s| {
                Value::Array(
                    (0..=n)
                        .map(|e| {
                            let r = span_to_range(&doc, s, e);
                            json!([r.start.line, r.start.character, r.end.line, r.end.character])
                        })
                        .collect(),
                )
            })
            .collect();
        json!({"o2p": o2p, "p2o": p2o, "s2r": s2r})
    });
    let mut out = match r {
        Ok(v) => v,
        Err(e) => return json!({"obs": panic_json(e)}),
    };
    // terminal + editor rendering of a diagnostic with every span: must not panic; the
    // editor range must equal span_to_range; the terminal line number is recorded.
    let url = Url::parse("file:///verif/doc.incn").ok();
    let mut term: Vec<Value> = Vec::new();
    let mut render_panics: Vec<Value> = Vec::new();
    for s in 0..=n {
        let mut row = Vec::new();
        for e in 0..=n {
            let err = CompileError::type_error("m".to_string(), Span::new(s, e)).with_hint("h");
            let r = guarded(|| {
                let text = format_error("f.incn", &doc, &err);
                let d = url.as_ref().map(|u| compile_error_to_diagnostic(&err, &doc, u));
                (text, d)
            });
            match r {
                Ok((text, d)) => {
                    // "  --> f.incn:LINE:COL"
                    let line = text
                        .lines()
                        .find_map(|l| l.split("f.incn:").nth(1))
                        .and_then(|rest| rest.split(':').next().map(|x| x.to_string()))
                        .and_then(|x| x.parse::<i64>().ok())
                        .unwrap_or(-2);
                    let dr = d.map(|d| {
                        json!([d.range.start.line, d.range.start.character, d.range.end.line, d.range.end.character])
                    });
                    row.push(json!({"line": line, "range": dr}));
                }
                Err(p) => {
                    row.push(json!({"line": -1}));
                    render_panics.push(json!({"s": s, "e": e, "panic": p.0, "at": p.1}));
                }
            }
        }
        term.push(Value::Array(row));
    }
    if let Some(o) = out.as_object_mut() {
        o.insert("render".into(), Value::Array(term));
        o.insert("render_panics".into(), Value::Array(render_panics));
        o.insert("bytes".into(), json!(doc.len()));
    }
    json!({"obs": out})
}

pub fn dispatch(op: &str, req: &Value) -> Option<Value> {
    Some(match op {
        "pos_tables" => op_pos_tables(req),
        _ => return None,
    })
}
