//! ndjson in -> ndjson out. One request per line; see harness/src/lib.rs for ops.
use std::io::{self, BufRead, Write};

fn main() {
    incan_verif_harness::install_quiet_panic_hook();
    let stdin = io::stdin();
    let stdout = io::stdout();
    let mut out = io::BufWriter::new(stdout.lock());
    for line in stdin.lock().lines() {
        let Ok(line) = line else { break };
        if line.trim().is_empty() {
            continue;
        }
        let resp = match serde_json::from_str::<serde_json::Value>(&line) {
            Ok(req) => incan_verif_harness::dispatch(&req),
            Err(e) => serde_json::json!({"tool_error": format!("bad json: {e}")}),
        };
        let _ = writeln!(out, "{}", resp);
        let _ = out.flush();
    }
}
