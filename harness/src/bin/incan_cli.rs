//! The real CLI, built from /repo's current working tree.
fn main() {
    incan::cli::run();
}
