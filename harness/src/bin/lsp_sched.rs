//! C18: drive the real `IncanLanguageServer` under a controlled scheduler.
//!
//! One JSON schedule per input line, one JSON observation record per output line.
//! A schedule: {"id":..,"dir":"/abs/scratch/dir","deps":["d1"],"hooks":true,"steps":[
//!   {"a":"send","h":1,"kind":"open|change|close","doc":"d1","ver":1,"cls":"ok|bad"},
//!   {"a":"start","h":1}            first poll of handler h (no grant)
//!   {"a":"step","h":1}             grant h its current yield point, then poll
//!   {"a":"resume","h":1}           poll without grant (handler blocked inside a lock acquisition)
//!   {"a":"poll","h":1}             hook-free mode: plain poll
//!   {"a":"drain"}                  drain the client socket (hook-free mode; hooked mode drains after every step)
//!   {"a":"hover","doc":"d1"} ]}
//! After every step the observation has: pc of every handler ("new", a yield label, "blocked",
//! "done"), the store snapshot (or locked), and the publishes drained since the previous step.
use futures::stream::StreamExt;
use incan::lsp::backend::{verif, IncanLanguageServer};
use serde_json::{json, Value};
use std::future::Future;
use std::io::{self, BufRead, Write};
use std::pin::Pin;
use std::sync::Arc;
use std::task::{Context, Poll, Wake, Waker};
use tower_lsp::jsonrpc::{Request, Response};
use tower_lsp::{ClientSocket, LspService};
use tower_service::Service;

struct Noop;
impl Wake for Noop {
    fn wake(self: Arc<Self>) {}
}

type Fut = Pin<Box<dyn Future<Output = Result<Option<Response>, tower_lsp::ExitedError>> + Send>>;

fn doc_text(doc: &str, ver: i64, cls: &str, has_dep: bool) -> String {
    // `ver` leading comment lines, so that the line of every diagnostic reveals the version of the
    // text it was computed from; the function name reveals the stored version through hover.
    let mut s = String::new();
    for _ in 0..ver {
        s.push_str("# pad\n");
    }
    if has_dep {
        s.push_str(&format!("import dep_{doc}\n"));
    }
    if cls == "ok" {
        s.push_str(&format!("def v{ver}() -> int:\n    return undefined_v{ver}\n"));
    } else {
        s.push_str(&format!("def v{ver}( -> :\n"));
    }
    s
}

struct Run {
    service: LspService<IncanLanguageServer>,
    socket: ClientSocket,
    futs: Vec<Option<Fut>>,     // index = handler id - 1
    keys: Vec<(String, i32)>,   // (uri, ver) per handler
    next_id: i64,
    dir: String,
    deps: Vec<String>,
}

fn uri_of(dir: &str, doc: &str) -> String {
    format!("file://{dir}/{doc}.incn")
}

impl Run {
    fn poll_fut(f: &mut Fut) -> Option<Result<Option<Response>, tower_lsp::ExitedError>> {
        let waker = Waker::from(Arc::new(Noop));
        let mut cx = Context::from_waker(&waker);
        match f.as_mut().poll(&mut cx) {
            Poll::Ready(r) => Some(r),
            Poll::Pending => None,
        }
    }

    /// Drive a request to completion, draining the socket while it is pending.
    fn complete(&mut self, req: Request) -> Option<Response> {
        let mut f: Fut = Box::pin(self.service.call(req));
        for _ in 0..10_000 {
            if let Some(r) = Self::poll_fut(&mut f) {
                return r.ok().flatten();
            }
            self.drain();
        }
        None
    }

    fn drain(&mut self) -> Vec<Value> {
        let waker = Waker::from(Arc::new(Noop));
        let mut cx = Context::from_waker(&waker);
        let mut out = Vec::new();
        loop {
            match self.socket.poll_next_unpin(&mut cx) {
                Poll::Ready(Some(req)) => {
                    if req.method() == "textDocument/publishDiagnostics" {
                        let p = req.params().cloned().unwrap_or(Value::Null);
                        let uri = p["uri"].as_str().unwrap_or("").to_string();
                        let doc = uri.rsplit('/').next().unwrap_or("").trim_end_matches(".incn").to_string();
                        let diags = p["diagnostics"].as_array().cloned().unwrap_or_default();
                        // which version's text were these computed from?
                        let mut from: Vec<i64> = Vec::new();
                        for d in &diags {
                            let msg = d["message"].as_str().unwrap_or("");
                            if let Some(i) = msg.find("undefined_v") {
                                let n: String = msg[i + 11..].chars().take_while(|c| c.is_ascii_digit()).collect();
                                if let Ok(v) = n.parse::<i64>() {
                                    from.push(v);
                                    continue;
                                }
                            }
                            if msg.starts_with("Failed to") {
                                continue; // dependency summary
                            }
                            // syntax error of a "bad" text: it sits on line `ver` (after the pad lines and import)
                            let line = d["range"]["start"]["line"].as_i64().unwrap_or(-1);
                            from.push(-line - 1000); // resolved by the driver (needs has_dep)
                        }
                        out.push(json!({"doc": doc, "ver": p["version"], "n": diags.len(), "from": from,
                                        "lines": diags.iter().map(|d| d["range"]["start"]["line"].clone()).collect::<Vec<_>>(),
                                        "msgs": diags.iter().map(|d| d["message"].as_str().unwrap_or("").chars().take(60).collect::<String>()).collect::<Vec<_>>()}));
                    }
                }
                _ => break,
            }
        }
        out
    }

    fn snapshot(&mut self) -> Value {
        let id = self.next_id;
        self.next_id += 1;
        let req = Request::build("verif/snapshot").id(id).finish();
        match self.complete(req) {
            Some(resp) => {
                let (_, r) = resp.into_parts();
                match r {
                    Ok(v) => {
                        if v["locked"].as_bool() == Some(true) {
                            return json!({"locked": true});
                        }
                        let docs: Vec<Value> = v["docs"]
                            .as_array()
                            .cloned()
                            .unwrap_or_default()
                            .iter()
                            .map(|d| {
                                let uri = d[0].as_str().unwrap_or("");
                                let doc = uri.rsplit('/').next().unwrap_or("").trim_end_matches(".incn").to_string();
                                let src = d[2].as_str().unwrap_or("");
                                // text version: the number after "def v"
                                let tv = src
                                    .find("def v")
                                    .map(|i| src[i + 5..].chars().take_while(|c| c.is_ascii_digit()).collect::<String>())
                                    .and_then(|n| n.parse::<i64>().ok())
                                    .unwrap_or(-1);
                                json!({"doc": doc, "ver": d[1], "tv": tv, "ast": d[3]})
                            })
                            .collect();
                        json!({"locked": false, "docs": docs})
                    }
                    Err(e) => json!({"error": format!("{e}")}),
                }
            }
            None => json!({"error": "no response"}),
        }
    }

    fn pcs(&self) -> Vec<Value> {
        let s = verif::SCHED.lock().unwrap_or_else(|p| p.into_inner());
        self.futs
            .iter()
            .enumerate()
            .map(|(i, f)| {
                if f.is_none() {
                    return json!("done");
                }
                let k = &self.keys[i];
                match s.waiting.iter().find(|w| w.1 == k.0 && w.2 == k.1) {
                    Some(w) => json!(w.0),
                    None => json!("unknown"),
                }
            })
            .collect()
    }
}

fn run_schedule(sched: &Value) -> Value {
    let dir = sched["dir"].as_str().unwrap_or("/tmp/lspfs").to_string();
    let deps: Vec<String> = sched["deps"].as_array().map(|a| a.iter().filter_map(|x| x.as_str().map(String::from)).collect()).unwrap_or_default();
    let hooks = sched["hooks"].as_bool().unwrap_or(true);
    let _ = std::fs::create_dir_all(&dir);
    for d in &deps {
        let _ = std::fs::write(format!("{dir}/dep_{d}.incn"), "pub def helper() -> int:\n    return 1\n");
    }
    {
        let mut s = verif::SCHED.lock().unwrap_or_else(|p| p.into_inner());
        s.active = false;
        s.grant = None;
        s.log.clear();
        s.waiting.clear();
    }
    let (service, socket) = LspService::build(IncanLanguageServer::new)
        .custom_method("verif/snapshot", IncanLanguageServer::verif_snapshot_rpc)
        .finish();
    let mut run = Run { service, socket, futs: Vec::new(), keys: Vec::new(), next_id: 1000, dir: dir.clone(), deps };
    let init = Request::build("initialize").params(json!({"capabilities": {}})).id(1).finish();
    if run.complete(init).is_none() {
        return json!({"id": sched["id"], "tool_error": "initialize failed"});
    }
    run.complete(Request::build("initialized").params(json!({})).finish());
    run.drain();
    {
        let mut s = verif::SCHED.lock().unwrap_or_else(|p| p.into_inner());
        s.active = hooks;
    }
    let mut obs: Vec<Value> = Vec::new();
    let mut started: Vec<bool> = Vec::new();
    let mut queue: std::collections::VecDeque<Value> = sched["steps"].as_array().cloned().unwrap_or_default().into();
    let mut rng_state: u64 = sched["seed"].as_u64().unwrap_or(1).wrapping_mul(6364136223846793005).wrapping_add(1442695040888963407);
    let mut budget: usize = 4000;
    let mut rr: usize = 0;
    while let Some(st) = queue.pop_front() {
        if budget == 0 {
            return json!({"id": sched["id"], "tool_error": "step budget exhausted (handler never finishes?)", "obs": obs});
        }
        budget -= 1;
        let a = st["a"].as_str().unwrap_or("");
        if a == "finish" || a == "random" {
            // expand into one primitive step chosen from the current handler states
            let pcs = run.pcs();
            let mut cands: Vec<Value> = Vec::new();
            let mut all_started_before = true;
            for i in 0..run.futs.len() {
                if !started[i] {
                    let running = (0..run.futs.len()).filter(|&j| started[j] && run.futs[j].is_some()).count();
                    if all_started_before && running < 4 {
                        cands.push(json!({"a": "start", "h": i + 1}));
                    }
                    all_started_before = false;
                    continue;
                }
                if run.futs[i].is_none() {
                    continue;
                }
                let pc = pcs[i].as_str().unwrap_or("");
                if pc == "unknown" {
                    cands.push(json!({"a": "resume", "h": i + 1}));
                } else {
                    cands.push(json!({"a": "step", "h": i + 1}));
                }
            }
            if cands.is_empty() {
                continue; // nothing left to do
            }
            let pick = if a == "finish" {
                // deterministic: prefer starting, then the lowest handler that can make progress;
                // a blocked handler is resumed only when nothing else can move
                let non_resume: Vec<&Value> = cands.iter().filter(|c| c["a"] != "resume").collect();
                if let Some(c) = non_resume.first() { (*c).clone() } else {
                    // rotate through blocked handlers
                    rr += 1;
                    cands[rr % cands.len()].clone()
                }
            } else {
                rng_state = rng_state.wrapping_mul(6364136223846793005).wrapping_add(1442695040888963407);
                cands[((rng_state >> 33) as usize) % cands.len()].clone()
            };
            if a == "finish" {
                queue.push_front(st.clone());
            } else {
                let n = st["n"].as_u64().unwrap_or(1);
                if n > 1 {
                    queue.push_front(json!({"a": "random", "n": n - 1}));
                }
            }
            queue.push_front(pick);
            continue;
        }
        let mut rec = json!({"a": a});
        let mut progressed = Value::Null;
        match a {
            "send" => {
                let doc = st["doc"].as_str().unwrap_or("d1");
                let ver = st["ver"].as_i64().unwrap_or(0);
                let kind = st["kind"].as_str().unwrap_or("open");
                let cls = st["cls"].as_str().unwrap_or("ok");
                let uri = uri_of(&run.dir, doc);
                let has_dep = run.deps.iter().any(|d| d == doc);
                let req = match kind {
                    "open" => Request::build("textDocument/didOpen")
                        .params(json!({"textDocument": {"uri": uri, "languageId": "incan", "version": ver,
                                                        "text": doc_text(doc, ver, cls, has_dep)}}))
                        .finish(),
                    "change" => Request::build("textDocument/didChange")
                        .params(json!({"textDocument": {"uri": uri, "version": ver},
                                       "contentChanges": [{"text": doc_text(doc, ver, cls, has_dep)}]}))
                        .finish(),
                    _ => Request::build("textDocument/didClose").params(json!({"textDocument": {"uri": uri}})).finish(),
                };
                let f: Fut = Box::pin(run.service.call(req));
                run.futs.push(Some(f));
                // the url crate normalises the uri; the hook key is Url::as_str()
                let norm = tower_lsp::lsp_types::Url::parse(&uri).map(|u| u.to_string()).unwrap_or(uri);
                run.keys.push((norm, if kind == "close" { 0 } else { ver as i32 }));
                started.push(false);
                rec["h"] = json!(run.futs.len());
            }
            "start" | "step" | "resume" | "poll" => {
                let h = st["h"].as_u64().unwrap_or(0) as usize;
                if h == 0 || h > run.futs.len() {
                    return json!({"id": sched["id"], "tool_error": format!("bad handler {h}")});
                }
                rec["h"] = json!(h);
                if a == "step" {
                    let mut s = verif::SCHED.lock().unwrap_or_else(|p| p.into_inner());
                    s.grant = Some(run.keys[h - 1].clone());
                }
                let mut done = false;
                if let Some(f) = run.futs[h - 1].as_mut() {
                    if Run::poll_fut(f).is_some() {
                        done = true;
                    }
                } else {
                    progressed = json!("already-done");
                }
                if done {
                    run.futs[h - 1] = None;
                    let mut s = verif::SCHED.lock().unwrap_or_else(|p| p.into_inner());
                    let k = run.keys[h - 1].clone();
                    s.waiting.retain(|w| !(w.1 == k.0 && w.2 == k.1));
                }
                {
                    // an unused grant means the handler was not at a yield point
                    let mut s = verif::SCHED.lock().unwrap_or_else(|p| p.into_inner());
                    if s.grant.is_some() {
                        s.grant = None;
                        progressed = json!("grant-unused");
                    }
                }
                started[h - 1] = true;
            }
            "drain" => {}
            "hover" => {
                let doc = st["doc"].as_str().unwrap_or("d1");
                let uri = uri_of(&run.dir, doc);
                // hover on the `def vN` line: find it by asking every line 0..12
                let mut found = Value::Null;
                for line in 0..12 {
                    let id = run.next_id;
                    run.next_id += 1;
                    let req = Request::build("textDocument/hover")
                        .params(json!({"textDocument": {"uri": uri}, "position": {"line": line, "character": 5}}))
                        .id(id)
                        .finish();
                    if let Some(resp) = run.complete(req) {
                        let (_, r) = resp.into_parts();
                        if let Ok(v) = r {
                            if let Some(s) = v["contents"]["value"].as_str() {
                                if let Some(i) = s.find("def v") {
                                    let n: String = s[i + 5..].chars().take_while(|c| c.is_ascii_digit()).collect();
                                    found = json!(n.parse::<i64>().unwrap_or(-1));
                                    break;
                                }
                            }
                        }
                    }
                }
                rec["hover"] = found;
                // completion answers from the stored text as well
                let id = run.next_id;
                run.next_id += 1;
                let req = Request::build("textDocument/completion")
                    .params(json!({"textDocument": {"uri": uri}, "position": {"line": 0, "character": 0}}))
                    .id(id)
                    .finish();
                let mut comp = Value::Null;
                if let Some(resp) = run.complete(req) {
                    let (_, r) = resp.into_parts();
                    if let Ok(v) = r {
                        if let Some(items) = v.as_array() {
                            let vs: Vec<i64> = items
                                .iter()
                                .filter_map(|it| it["label"].as_str())
                                .filter(|l| l.starts_with('v') && l[1..].chars().all(|c| c.is_ascii_digit()) && l.len() > 1)
                                .filter_map(|l| l[1..].parse::<i64>().ok())
                                .collect();
                            comp = json!({"open": true, "fns": vs});
                        } else {
                            comp = json!({"open": false});
                        }
                    }
                }
                rec["completion"] = comp;
            }
            _ => return json!({"id": sched["id"], "tool_error": format!("bad step {a}")}),
        }
        let pubs = if hooks || a == "drain" || a == "hover" { run.drain() } else { Vec::new() };
        rec["pubs"] = json!(pubs);
        rec["note"] = progressed;
        rec["pcs"] = json!(run
            .pcs()
            .into_iter()
            .enumerate()
            .map(|(i, p)| if !started[i] { json!("new") } else { p })
            .collect::<Vec<_>>());
        rec["store"] = if hooks || a == "drain" || a == "hover" { run.snapshot() } else { Value::Null };
        obs.push(rec);
    }
    let log: Vec<Value> = {
        let s = verif::SCHED.lock().unwrap_or_else(|p| p.into_inner());
        s.log.iter().map(|e| json!([e.0, e.1.rsplit('/').next().unwrap_or(""), e.2])).collect()
    };
    json!({"id": sched["id"], "obs": obs, "yield_log": log})
}

fn main() {
    incan_verif_harness::install_quiet_panic_hook();
    let stdin = io::stdin();
    let stdout = io::stdout();
    let mut out = io::BufWriter::new(stdout.lock());
    for line in stdin.lock().lines() {
        let Ok(line) = line else { break };
        if line.trim().is_empty() {
            continue;
        }
        let resp = match serde_json::from_str::<Value>(&line) {
            Ok(s) => match incan_verif_harness::guarded(|| run_schedule(&s)) {
                Ok(v) => v,
                Err(e) => json!({"id": s["id"], "panic": e.0, "at": e.1}),
            },
            Err(e) => json!({"tool_error": format!("bad json: {e}")}),
        };
        let _ = writeln!(out, "{}", resp);
        let _ = out.flush();
    }
}
