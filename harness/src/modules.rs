//! C14: the real module resolvers / collectors on materialised directory trees.
//!
//! The driver (lib/checks/c14.py) writes a layout below `root`; every generated file starts with a
//! line `# @file <path relative to root>` so that a parsed module can be mapped back to its file
//! through its own source text. Ops:
//!
//! `c14_run`  {root, entry, importer?, import_idx?, want:[..]} -> {obs:{..}} with, per `want`:
//!   "cli"    `incan::cli::commands::collect_modules(entry)`: files in VISIT order (the function
//!            returns them reversed), module names, path segments | err | panic/TIMEOUT
//!   "lib"    `incan::frontend::resolver::ModuleResolver::resolve(entry)`: files in visit order
//!   "col"    `incan::frontend::module::ModuleCollector::collect(entry)`: set of loaded files | errs
//!   "shared" `incan::frontend::module::resolve_import_path(base, import)` for the import_idx-th
//!            import declaration of `importer`, with base = directory of the importer and with
//!            base = directory of the entry; plus the projection of every import of the importer
//!   "check"  what `incan --check entry` does: collect_modules + TypeChecker::check_with_imports
//!   "lsp"    the real language server: initialize, didOpen(entry); the dependency files it
//!            publishes diagnostics for (in order = its visit order) and the entry's diagnostics
//! `c14_parse_import` {src} -> projection of the import declarations of `src` (real parser)
//!
//! Every call into the code under test is guarded (panic, wall-clock limit): both are data.
//! After the first TIMEOUT in this process further c14 ops answer `{"skipped_after_timeout":true}`
//! (the leaked thread may spin and allocate; the driver starts a new process).

use crate::project;
use crate::{guarded, panic_json};
use futures::stream::StreamExt;
use incan::frontend::typechecker::TypeChecker;
use incan_syntax::ast::{Declaration, ImportDecl, Program};
use incan_syntax::{lexer, parser};
use serde_json::{json, Map, Value};
use std::future::Future;
use std::path::{Path, PathBuf};
use std::pin::Pin;
use std::sync::atomic::{AtomicBool, Ordering};
use std::sync::Arc;
use std::task::{Context, Poll, Wake, Waker};
use tower_lsp::jsonrpc::{Request, Response};
use tower_lsp::{ClientSocket, LspService};
use tower_service::Service;

const LIMIT_MS: u64 = 4_000;
static TIMED_OUT: AtomicBool = AtomicBool::new(false);

// ------------------------------------------------------------------ guarded calls on a persistent worker
// (a fresh 256 MB-stack thread per call costs milliseconds; thousands of layouts x six collectors)
type Job = Box<dyn FnOnce() -> Value + Send + 'static>;
type JobResult = Result<Value, (String, String)>;
struct Worker {
    tx: std::sync::mpsc::Sender<Job>,
    rx: std::sync::mpsc::Receiver<JobResult>,
}
static WORKER: std::sync::Mutex<Option<Worker>> = std::sync::Mutex::new(None);

fn spawn_worker() -> Option<Worker> {
    let (jtx, jrx) = std::sync::mpsc::channel::<Job>();
    let (rtx, rrx) = std::sync::mpsc::channel::<JobResult>();
    std::thread::Builder::new()
        .stack_size(256 * 1024 * 1024)
        .spawn(move || {
            while let Ok(job) = jrx.recv() {
                let r = guarded(job);
                if rtx.send(r).is_err() {
                    break;
                }
            }
        })
        .ok()?;
    Some(Worker { tx: jtx, rx: rrx })
}

/// Run `f` on the worker thread: a panic is `Err((message, location))`, exceeding `ms` is
/// `Err(("TIMEOUT", ""))` (the worker is abandoned - it may still be spinning - and replaced).
fn guarded_timeout(ms: u64, f: impl FnOnce() -> Value + Send + 'static) -> JobResult {
    let mut slot = WORKER.lock().unwrap_or_else(|p| p.into_inner());
    if slot.is_none() {
        *slot = spawn_worker();
    }
    let Some(w) = slot.as_ref() else {
        return Err(("SPAWN-FAILED".into(), String::new()));
    };
    if w.tx.send(Box::new(f)).is_err() {
        *slot = None;
        return Err(("ABORTED".into(), String::new()));
    }
    match w.rx.recv_timeout(std::time::Duration::from_millis(ms)) {
        Ok(r) => r,
        Err(std::sync::mpsc::RecvTimeoutError::Timeout) => {
            *slot = None;
            Err(("TIMEOUT".into(), String::new()))
        }
        Err(std::sync::mpsc::RecvTimeoutError::Disconnected) => {
            *slot = None;
            Err(("ABORTED".into(), String::new()))
        }
    }
}

fn file_id(source: &str) -> String {
    for line in source.lines().take(3) {
        if let Some(rest) = line.strip_prefix("# @file ") {
            return rest.trim().to_string();
        }
    }
    "?".to_string()
}

fn rel(root: &Path, p: &Path) -> String {
    match p.strip_prefix(root) {
        Ok(r) => r.to_string_lossy().to_string(),
        Err(_) => format!("OUTSIDE:{}", p.display()),
    }
}

fn parse_file(p: &Path) -> Result<Program, String> {
    let src = std::fs::read_to_string(p).map_err(|e| format!("read {}: {e}", p.display()))?;
    let toks = lexer::lex(&src).map_err(|e| format!("lex {}: {:?}", p.display(), e.first().map(|x| x.message.clone())))?;
    parser::parse(&toks).map_err(|e| format!("parse {}: {:?}", p.display(), e.first().map(|x| x.message.clone())))
}

fn imports_of(ast: &Program) -> Vec<ImportDecl> {
    ast.declarations
        .iter()
        .filter_map(|d| match &d.node {
            Declaration::Import(i) => Some(i.clone()),
            _ => None,
        })
        .collect()
}

fn wrap(r: Result<Value, (String, String)>) -> Value {
    match r {
        Ok(v) => {
            // the language-server driver reports its own deadline (the handler never completed)
            if v.get("panic").and_then(|x| x.as_str()) == Some("TIMEOUT") {
                TIMED_OUT.store(true, Ordering::SeqCst);
            }
            v
        }
        Err(e) => {
            if e.0 == "TIMEOUT" {
                TIMED_OUT.store(true, Ordering::SeqCst);
            }
            panic_json(e)
        }
    }
}

fn run_cli(entry: String) -> Value {
    wrap(guarded_timeout(LIMIT_MS, move || match incan::cli::commands::collect_modules(&entry) {
        Ok(mods) => {
            // collect_modules reverses the visit order before returning
            let visited: Vec<String> = mods.iter().rev().map(|m| file_id(&m.source)).collect();
            let names: Vec<String> = mods.iter().rev().map(|m| m.name.clone()).collect();
            let segs: Vec<Vec<String>> = mods.iter().rev().map(|m| m.path_segments.clone()).collect();
            json!({"ok": true, "visited": visited, "names": names, "segs": segs})
        }
        Err(e) => json!({"ok": false, "err": e.message}),
    }))
}

fn run_lib(entry: String) -> Value {
    wrap(guarded_timeout(LIMIT_MS, move || {
        let mut r = incan::frontend::resolver::ModuleResolver::new();
        match r.resolve(&entry) {
            Ok(mods) => {
                let visited: Vec<String> = mods.iter().map(|m| file_id(&m.source)).collect();
                let names: Vec<String> = mods.iter().map(|m| m.name.clone()).collect();
                json!({"ok": true, "visited": visited, "names": names})
            }
            Err(e) => json!({"ok": false, "err": format!("{e}")}),
        }
    }))
}

fn run_col(entry: String) -> Value {
    wrap(guarded_timeout(LIMIT_MS, move || {
        let p = PathBuf::from(&entry);
        let mut c = incan::frontend::module::ModuleCollector::new(&p);
        match c.collect(&p) {
            Ok(mods) => {
                let mut loaded: Vec<String> = mods.iter().map(|m| file_id(&m.source)).collect();
                loaded.sort();
                json!({"ok": true, "loaded": loaded})
            }
            Err(errs) => json!({"ok": false, "errs": errs.iter().map(|e| e.message.clone()).collect::<Vec<_>>()}),
        }
    }))
}

fn run_shared(root: PathBuf, entry: PathBuf, importer: PathBuf, idx: usize) -> Value {
    wrap(guarded_timeout(LIMIT_MS, move || {
        let ast = match parse_file(&importer) {
            Ok(a) => a,
            Err(e) => return json!({"ok": false, "err": e}),
        };
        let imps = imports_of(&ast);
        let proj: Vec<Value> = ast
            .declarations
            .iter()
            .filter(|d| matches!(d.node, Declaration::Import(_)))
            .map(|d| project::decl(&d.node))
            .collect();
        let Some(imp) = imps.get(idx) else {
            return json!({"ok": false, "err": format!("no import #{idx}"), "imports": proj});
        };
        let ib = importer.parent().unwrap_or(Path::new(".")).to_path_buf();
        let eb = entry.parent().unwrap_or(Path::new(".")).to_path_buf();
        let a = incan::frontend::module::resolve_import_path(&ib, imp);
        let b = incan::frontend::module::resolve_import_path(&eb, imp);
        let f = |x: Option<PathBuf>| match x {
            Some(p) => json!(rel(&root, &p)),
            None => Value::Null,
        };
        json!({"ok": true, "importer_base": f(a), "entry_base": f(b), "imports": proj})
    }))
}

fn run_check(entry: String) -> Value {
    wrap(guarded_timeout(LIMIT_MS, move || {
        let mods = match incan::cli::commands::collect_modules(&entry) {
            Ok(m) => m,
            Err(e) => return json!({"ok": false, "stage": "collect", "errs": [{"msg": e.message}]}),
        };
        let Some(main) = mods.last() else {
            return json!({"ok": false, "stage": "collect", "errs": [{"msg": "No modules found"}]});
        };
        let deps: Vec<(&str, &Program)> = mods[..mods.len() - 1].iter().map(|m| (m.name.as_str(), &m.ast)).collect();
        let dep_files: Vec<String> = mods[..mods.len() - 1].iter().map(|m| file_id(&m.source)).collect();
        let dep_names: Vec<String> = mods[..mods.len() - 1].iter().map(|m| m.name.clone()).collect();
        let mut tc = TypeChecker::new();
        match tc.check_with_imports(&main.ast, &deps) {
            Ok(()) => json!({"ok": true, "deps": dep_files, "dep_names": dep_names}),
            Err(errs) => json!({"ok": false, "stage": "check", "deps": dep_files, "dep_names": dep_names,
                                "errs": errs.iter().map(project::diag).collect::<Vec<_>>()}),
        }
    }))
}

// ------------------------------------------------------------------ the real language server
struct Noop;
impl Wake for Noop {
    fn wake(self: Arc<Self>) {}
}
type Fut = Pin<Box<dyn Future<Output = Result<Option<Response>, tower_lsp::ExitedError>> + Send>>;

fn drain(socket: &mut ClientSocket, out: &mut Vec<Value>) {
    let waker = Waker::from(Arc::new(Noop));
    let mut cx = Context::from_waker(&waker);
    while let Poll::Ready(Some(req)) = socket.poll_next_unpin(&mut cx) {
        if req.method() == "textDocument/publishDiagnostics" {
            let p = req.params().cloned().unwrap_or(Value::Null);
            let diags = p["diagnostics"].as_array().cloned().unwrap_or_default();
            out.push(json!({"uri": p["uri"], "version": p["version"],
                "msgs": diags.iter().map(|d| d["message"].as_str().unwrap_or("").to_string()).collect::<Vec<_>>()}));
        }
    }
}

fn complete(
    service: &mut LspService<incan::lsp::backend::IncanLanguageServer>,
    socket: &mut ClientSocket,
    req: Request,
    pubs: &mut Vec<Value>,
    deadline: std::time::Instant,
) -> Result<Option<Response>, String> {
    let mut f: Fut = Box::pin(service.call(req));
    let waker = Waker::from(Arc::new(Noop));
    let mut cx = Context::from_waker(&waker);
    loop {
        if let Poll::Ready(r) = f.as_mut().poll(&mut cx) {
            drain(socket, pubs);
            return r.map_err(|e| format!("{e}"));
        }
        drain(socket, pubs);
        if std::time::Instant::now() > deadline {
            return Err("LSP-NO-PROGRESS".into());
        }
    }
}

fn run_lsp(root: PathBuf, entry: PathBuf) -> Value {
    wrap(guarded_timeout(LIMIT_MS + 1_000, move || {
        let text = match std::fs::read_to_string(&entry) {
            Ok(t) => t,
            Err(e) => return json!({"tool_error": format!("read entry: {e}")}),
        };
        let deadline = std::time::Instant::now() + std::time::Duration::from_millis(LIMIT_MS);
        let (mut service, mut socket) = LspService::new(incan::lsp::backend::IncanLanguageServer::new);
        let mut pubs: Vec<Value> = Vec::new();
        let init = Request::build("initialize").params(json!({"capabilities": {}})).id(1).finish();
        if let Err(e) = complete(&mut service, &mut socket, init, &mut pubs, deadline) {
            return json!({"tool_error": format!("initialize: {e}")});
        }
        let _ = complete(&mut service, &mut socket, Request::build("initialized").params(json!({})).finish(), &mut pubs, deadline);
        pubs.clear();
        let uri = format!("file://{}", entry.display());
        let open = Request::build("textDocument/didOpen")
            .params(json!({"textDocument": {"uri": uri, "languageId": "incan", "version": 1, "text": text}}))
            .finish();
        if let Err(e) = complete(&mut service, &mut socket, open, &mut pubs, deadline) {
            if e == "LSP-NO-PROGRESS" {
                return json!({"panic": "TIMEOUT", "at": "didOpen never completed"});
            }
            return json!({"tool_error": format!("didOpen: {e}")});
        }
        let prefix = format!("file://{}/", root.display());
        let entry_rel = rel(&root, &entry);
        let mut deps: Vec<Value> = Vec::new();
        let mut entry_msgs: Vec<Value> = Vec::new();
        let mut entry_published = 0;
        for p in &pubs {
            let u = p["uri"].as_str().unwrap_or("");
            let r = u.strip_prefix(&prefix).map(|s| s.to_string()).unwrap_or_else(|| format!("OUTSIDE:{u}"));
            if r == entry_rel && !p["version"].is_null() {
                entry_published += 1;
                entry_msgs = p["msgs"].as_array().cloned().unwrap_or_default();
            } else {
                deps.push(json!({"file": r, "msgs": p["msgs"]}));
            }
        }
        json!({"ok": true, "deps": deps, "entry_published": entry_published, "entry_msgs": entry_msgs})
    }))
}

fn op_run(req: &Value) -> Value {
    if TIMED_OUT.load(Ordering::SeqCst) {
        return json!({"skipped_after_timeout": true});
    }
    let Some(root) = req["root"].as_str() else {
        return json!({"tool_error": "c14_run: no root"});
    };
    let root = PathBuf::from(root);
    let entry = root.join(req["entry"].as_str().unwrap_or("main.incn"));
    let importer = root.join(req["importer"].as_str().unwrap_or_else(|| req["entry"].as_str().unwrap_or("main.incn")));
    let idx = req["import_idx"].as_u64().unwrap_or(0) as usize;
    let want: Vec<String> = req["want"]
        .as_array()
        .map(|a| a.iter().filter_map(|x| x.as_str().map(String::from)).collect())
        .unwrap_or_else(|| vec!["cli".into(), "lib".into(), "col".into(), "shared".into()]);
    if !entry.exists() {
        return json!({"tool_error": format!("c14_run: entry {} does not exist", entry.display())});
    }
    let es = entry.to_string_lossy().to_string();
    let mut obs = Map::new();
    for w in want {
        if TIMED_OUT.load(Ordering::SeqCst) {
            obs.insert(w, json!({"skipped_after_timeout": true}));
            continue;
        }
        let v = match w.as_str() {
            "cli" => run_cli(es.clone()),
            "lib" => run_lib(es.clone()),
            "col" => run_col(es.clone()),
            "shared" => run_shared(root.clone(), entry.clone(), importer.clone(), idx),
            "check" => run_check(es.clone()),
            "lsp" => run_lsp(root.clone(), entry.clone()),
            other => json!({"tool_error": format!("unknown want {other}")}),
        };
        if let Some(te) = v.get("tool_error") {
            return json!({"tool_error": te.clone()});
        }
        obs.insert(w, v);
    }
    json!({"obs": obs})
}

fn op_parse_import(req: &Value) -> Value {
    let src = req["src"].as_str().unwrap_or("").to_string();
    let r = guarded_timeout(LIMIT_MS, move || {
        let toks = match lexer::lex(&src) {
            Ok(t) => t,
            Err(e) => return json!({"ok": false, "stage": "lex", "errs": e.iter().map(project::diag).collect::<Vec<_>>()}),
        };
        match parser::parse(&toks) {
            Ok(ast) => {
                let proj: Vec<Value> = ast
                    .declarations
                    .iter()
                    .filter(|d| matches!(d.node, Declaration::Import(_)))
                    .map(|d| project::decl(&d.node))
                    .collect();
                json!({"ok": true, "imports": proj})
            }
            Err(e) => json!({"ok": false, "stage": "parse", "errs": e.iter().map(project::diag).collect::<Vec<_>>()}),
        }
    });
    match r {
        Ok(v) => json!({"obs": v}),
        Err(e) => json!({"obs": panic_json(e)}),
    }
}

pub fn dispatch(op: &str, req: &Value) -> Option<Value> {
    Some(match op {
        "c14_run" => op_run(req),
        "c14_parse_import" => op_parse_import(req),
        _ => return None,
    })
}
