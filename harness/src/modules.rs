//! C14: the three module resolvers on materialised directory trees (filled in below).
use serde_json::Value;

pub fn dispatch(_op: &str, _req: &Value) -> Option<Value> {
    None
}
