//! C15/C12: project generation without cargo (filled in below).
use serde_json::Value;

pub fn dispatch(_op: &str, _req: &Value) -> Option<Value> {
    None
}
