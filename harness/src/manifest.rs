//! C15/C12: project generation without cargo.
//!
//! `gen_project` performs the call sequence of `prepare_project` in /repo/src/cli/commands.rs
//! (which is private) from the public API: `collect_modules` -> `TypeChecker::check_with_imports`
//! -> `IrCodegen` (add_module, the four scanners) -> `collect_rust_crates` -> `ProjectGenerator`
//! (set_needs_*, add_rust_crate) -> `try_generate[_multi_file_nested]` -> `generate[_nested]`.
//! cargo is never invoked. The checks ALSO run the real CLI (`incan_cli build` with a stub
//! `cargo` first on PATH) and compare, so the binding does not rest on this replica alone.
//!
//! ops:
//!  {"op":"gen_project","dir":abs,"files":{rel:text}?, "entry":rel,"out":abs,"keep":bool?,"scan_deps":bool?}
//!     -> {"obs":{"ok":bool,"stage":..,"err":..,"cargo_toml":text,"rs":{rel:text},
//!                "needs":{"serde","tokio","axum"},"rust_crates":[..decl order..],
//!                "modules":[{"name","path":[..]}..]}}
//!  {"op":"emit_entry","dir":abs,"entry":rel}   what `--emit-rust` prints (collect_modules + try_generate)
//!  {"op":"check_entry","dir":abs,"entry":rel}  what `--check` prints on failure (formatted diagnostics)
use crate::{guarded_timeout, panic_json};
use incan::backend::{IrCodegen, ProjectGenerator};
use incan::cli::commands::{collect_modules, collect_rust_crates};
use incan::frontend::ast::Program;
use incan::frontend::{diagnostics, typechecker};
use serde_json::{json, Map, Value};
use std::fs;
use std::path::{Path, PathBuf};

const LIMIT_MS: u64 = 30_000;

fn write_files(dir: &Path, files: Option<&Map<String, Value>>) -> Result<(), String> {
    fs::create_dir_all(dir).map_err(|e| format!("mkdir {}: {e}", dir.display()))?;
    if let Some(files) = files {
        for (rel, text) in files {
            let p = dir.join(rel);
            if let Some(parent) = p.parent() {
                fs::create_dir_all(parent).map_err(|e| format!("mkdir {}: {e}", parent.display()))?;
            }
            fs::write(&p, text.as_str().unwrap_or("")).map_err(|e| format!("write {}: {e}", p.display()))?;
        }
    }
    Ok(())
}

fn read_tree(root: &Path, rel: &Path, out: &mut Map<String, Value>) {
    let Ok(rd) = fs::read_dir(root.join(rel)) else { return };
    let mut entries: Vec<PathBuf> = rd.flatten().map(|e| e.path()).collect();
    entries.sort();
    for p in entries {
        let name = p.file_name().map(|n| n.to_string_lossy().to_string()).unwrap_or_default();
        let r = rel.join(&name);
        if p.is_dir() {
            if name != "target" {
                read_tree(root, &r, out);
            }
        } else if let Ok(t) = fs::read_to_string(&p) {
            out.insert(r.to_string_lossy().to_string(), json!(t));
        }
    }
}

fn as_refusal<T: std::fmt::Debug>(r: &T) -> Option<String> {
    let s = format!("{r:?}");
    if s.starts_with("Err(") {
        Some(s)
    } else {
        None
    }
}

/// The body of `prepare_project`, statement by statement (comments quote the original).
fn prepare_project_replica(entry: &str, out_dir: &str, scan_deps: bool) -> Value {
    // let modules = collect_modules(file_path)?;
    let modules = match collect_modules(entry) {
        Ok(m) => m,
        Err(e) => return json!({"ok": false, "stage": "collect", "err": e.message}),
    };
    let Some(main_module) = modules.last() else {
        return json!({"ok": false, "stage": "collect", "err": "No modules found"});
    };
    let dep_modules = &modules[..modules.len() - 1];
    let deps: Vec<(&str, &Program)> = dep_modules.iter().map(|m| (m.name.as_str(), &m.ast)).collect();

    // Type check
    let mut checker = typechecker::TypeChecker::new();
    if let Err(errs) = checker.check_with_imports(&main_module.ast, &deps) {
        let mut msg = String::new();
        for err in &errs {
            msg.push_str(&diagnostics::format_error(entry, &main_module.source, err));
        }
        return json!({"ok": false, "stage": "check", "err": msg.trim_end()});
    }

    // Derive project name from file path
    let path = Path::new(entry);
    let project_name = path.file_stem().and_then(|s| s.to_str()).unwrap_or("incan_project");

    // Setup codegen
    let mut codegen = IrCodegen::new();
    for module in dep_modules {
        codegen.add_module(&module.name, &module.ast);
    }
    codegen.scan_for_serde(&main_module.ast);
    codegen.scan_for_async(&main_module.ast);
    codegen.scan_for_web(&main_module.ast);
    codegen.scan_for_list_helpers(&main_module.ast);
    // Variant "scan_deps" = prepare_project after proposed_fixes/C15_scan_dependency_modules.patch;
    // the check picks the variant that reproduces what the real CLI writes (calibration probe).
    if scan_deps {
        for module in dep_modules {
            codegen.scan_for_serde(&module.ast);
            codegen.scan_for_async(&module.ast);
            codegen.scan_for_web(&module.ast);
        }
    }

    let needs_serde = codegen.needs_serde();
    let needs_tokio = codegen.needs_tokio();
    let needs_axum = codegen.needs_axum();
    let mut rust_crates = collect_rust_crates(&main_module.ast);
    if scan_deps {
        for module in dep_modules {
            for crate_name in collect_rust_crates(&module.ast) {
                if !rust_crates.contains(&crate_name) {
                    rust_crates.push(crate_name);
                }
            }
        }
    }

    // Setup project generator
    let mut generator = ProjectGenerator::new(out_dir, project_name, true);
    generator.set_needs_serde(needs_serde);
    generator.set_needs_tokio(needs_tokio);
    generator.set_needs_axum(needs_axum);
    for crate_name in &rust_crates {
        // Today `add_rust_crate` returns (); if it is changed to return a Result (refusing unknown
        // crates), the error ends preparation exactly as `?` would in prepare_project.
        let r = generator.add_rust_crate(crate_name);
        if let Some(e) = as_refusal(&r) {
            return json!({"ok": false, "stage": "refused", "err": e, "crate": crate_name});
        }
    }

    let mods_json: Vec<Value> = modules
        .iter()
        .map(|m| json!({"name": m.name, "path": m.path_segments}))
        .collect();
    let info = json!({"needs": {"serde": needs_serde, "tokio": needs_tokio, "axum": needs_axum},
                      "rust_crates": rust_crates, "modules": mods_json, "project_name": project_name});

    // Generate Rust project files
    let has_deps = !dep_modules.is_empty();
    if has_deps {
        let module_paths: Vec<Vec<String>> = dep_modules.iter().map(|m| m.path_segments.clone()).collect();
        let (main_code, rust_modules) = match codegen.try_generate_multi_file_nested(&main_module.ast, &module_paths) {
            Ok(x) => x,
            Err(e) => return json!({"ok": false, "stage": "codegen", "err": format!("Code generation error: {e}"), "info": info}),
        };
        if let Err(e) = generator.generate_nested(&main_code, &rust_modules) {
            return json!({"ok": false, "stage": "write", "err": format!("Error generating project: {e}"), "info": info});
        }
    } else {
        let rust_code = match codegen.try_generate(&main_module.ast) {
            Ok(x) => x,
            Err(e) => return json!({"ok": false, "stage": "codegen", "err": format!("Code generation error: {e}"), "info": info}),
        };
        if let Err(e) = generator.generate(&rust_code) {
            return json!({"ok": false, "stage": "write", "err": format!("Error generating project: {e}"), "info": info});
        }
    }
    json!({"ok": true, "info": info})
}

fn op_gen_project(req: &Value) -> Value {
    let dir = PathBuf::from(req["dir"].as_str().unwrap_or(""));
    let out = req["out"].as_str().unwrap_or("").to_string();
    let entry_rel = req["entry"].as_str().unwrap_or("main.incn").to_string();
    let keep = req.get("keep").and_then(|x| x.as_bool()).unwrap_or(false);
    if dir.as_os_str().is_empty() || out.is_empty() {
        return json!({"tool_error": "gen_project needs dir and out"});
    }
    if let Err(e) = write_files(&dir, req.get("files").and_then(|f| f.as_object())) {
        return json!({"tool_error": e});
    }
    let _ = fs::remove_dir_all(&out);
    let entry = dir.join(&entry_rel).to_string_lossy().to_string();
    let out2 = out.clone();
    let scan_deps = req.get("scan_deps").and_then(|x| x.as_bool()).unwrap_or(false);
    let r = guarded_timeout(LIMIT_MS, move || prepare_project_replica(&entry, &out2, scan_deps));
    let mut obs = match r {
        Ok(v) => v,
        Err(e) => panic_json(e),
    };
    let outp = Path::new(&out);
    if let Ok(t) = fs::read_to_string(outp.join("Cargo.toml")) {
        obs["cargo_toml"] = json!(t);
    }
    let mut rs = Map::new();
    read_tree(outp, Path::new("src"), &mut rs);
    obs["rs"] = Value::Object(rs);
    if !keep {
        let _ = fs::remove_dir_all(&out);
    }
    json!({"obs": obs})
}

/// What `incan --emit-rust <entry>` prints (same calls as `emit_rust` in commands.rs).
fn op_emit_entry(req: &Value) -> Value {
    let dir = PathBuf::from(req["dir"].as_str().unwrap_or(""));
    if let Err(e) = write_files(&dir, req.get("files").and_then(|f| f.as_object())) {
        return json!({"tool_error": e});
    }
    let entry = dir.join(req["entry"].as_str().unwrap_or("main.incn")).to_string_lossy().to_string();
    let r = guarded_timeout(LIMIT_MS, move || {
        let modules = match collect_modules(&entry) {
            Ok(m) => m,
            Err(e) => return json!({"ok": false, "stage": "collect", "err": e.message}),
        };
        let Some(main_module) = modules.last() else {
            return json!({"ok": false, "stage": "collect", "err": "No modules found"});
        };
        let mut codegen = IrCodegen::new();
        for module in &modules[..modules.len() - 1] {
            codegen.add_module(&module.name, &module.ast);
        }
        match codegen.try_generate(&main_module.ast) {
            Ok(code) => json!({"ok": true, "rust": code}),
            Err(e) => json!({"ok": false, "stage": "codegen", "err": format!("Code generation error: {e}")}),
        }
    });
    match r {
        Ok(v) => json!({"obs": v}),
        Err(e) => json!({"obs": panic_json(e)}),
    }
}

/// What `incan --check <entry>` decides, with the formatted diagnostics in emission order.
fn op_check_entry(req: &Value) -> Value {
    let dir = PathBuf::from(req["dir"].as_str().unwrap_or(""));
    if let Err(e) = write_files(&dir, req.get("files").and_then(|f| f.as_object())) {
        return json!({"tool_error": e});
    }
    let entry_rel = req["entry"].as_str().unwrap_or("main.incn").to_string();
    let entry = dir.join(&entry_rel).to_string_lossy().to_string();
    let r = guarded_timeout(LIMIT_MS, move || {
        let modules = match collect_modules(&entry) {
            Ok(m) => m,
            Err(e) => return json!({"ok": false, "stage": "collect", "err": e.message}),
        };
        let Some(main_module) = modules.last() else {
            return json!({"ok": false, "stage": "collect", "err": "No modules found"});
        };
        let deps: Vec<(&str, &Program)> = modules[..modules.len() - 1]
            .iter()
            .map(|m| (m.name.as_str(), &m.ast))
            .collect();
        let mut checker = typechecker::TypeChecker::new();
        match checker.check_with_imports(&main_module.ast, &deps) {
            Ok(()) => json!({"ok": true, "modules": modules.iter().map(|m| m.name.clone()).collect::<Vec<_>>()}),
            Err(errs) => json!({"ok": false, "stage": "check",
                "messages": errs.iter().map(|e| e.message.clone()).collect::<Vec<_>>(),
                "rendered": errs.iter().map(|e| diagnostics::format_error(&entry_rel, &main_module.source, e)).collect::<Vec<_>>()}),
        }
    });
    match r {
        Ok(v) => json!({"obs": v}),
        Err(e) => json!({"obs": panic_json(e)}),
    }
}

pub fn dispatch(op: &str, req: &Value) -> Option<Value> {
    match op {
        "gen_project" => Some(op_gen_project(req)),
        "emit_entry" => Some(op_emit_entry(req)),
        "check_entry" => Some(op_check_entry(req)),
        _ => None,
    }
}
