//! Numeric and sequence kernels (C04, C05, C07 policy): every copy of each kernel is
//! called on the same arguments and all answers are returned side by side.

use crate::{guarded, guarded_timeout, panic_json};
use serde_json::{json, Map, Value};
use std::collections::HashMap;

fn geti(v: &Value, k: &str) -> i64 {
    v.get(k).and_then(|x| x.as_i64()).unwrap_or(0)
}
fn getopt(v: &Value, k: &str) -> Option<i64> {
    v.get(k).and_then(|x| x.as_i64())
}

/// A number argument: {"t":"int","v":n} or {"t":"float","n":k,"d":m} meaning k / 2^m (exact in f64),
/// or {"t":"float","bits":"<u64>"} for an arbitrary f64.
#[derive(Clone, Copy, Debug)]
enum Num {
    I(i64),
    F(f64),
}
fn num(v: &Value) -> Num {
    match v.get("t").and_then(|x| x.as_str()) {
        Some("float") => {
            if let Some(b) = v.get("bits").and_then(|x| x.as_str()) {
                return Num::F(f64::from_bits(b.parse::<u64>().unwrap_or(0)));
            }
            let n = geti(v, "n") as f64;
            let d = geti(v, "d") as i32;
            Num::F(n / 2f64.powi(d))
        }
        _ => Num::I(geti(v, "v")),
    }
}
fn fjson(x: f64) -> Value {
    // value as JSON number when finite (shortest round-trip repr) + raw bits
    if x.is_finite() {
        json!({"t":"float","f":x,"bits":x.to_bits().to_string()})
    } else {
        json!({"t":"float","f":Value::Null,"bits":x.to_bits().to_string(),"nonfinite":format!("{x}")})
    }
}
fn ijson(x: i64) -> Value {
    json!({"t":"int","v":x})
}
fn res(r: Result<Value, (String, String)>) -> Value {
    match r {
        Ok(v) => v,
        Err(e) => panic_json(e),
    }
}

fn op_num(req: &Value) -> Value {
    use incan_stdlib::num as sn;
    let f = req.get("fn").and_then(|x| x.as_str()).unwrap_or("");
    let a = num(&req["a"]);
    let b = num(&req["b"]);
    let mut out = Map::new();
    let bzero = match b {
        Num::I(x) => x == 0,
        Num::F(x) => x == 0.0,
    };
    match (f, a, b) {
        ("mod", Num::I(a), Num::I(b)) => {
            if !bzero {
                out.insert("core".into(), res(guarded(|| ijson(incan_core::py_mod_i64_impl(a, b)))));
            }
            out.insert("std_generic".into(), res(guarded(|| ijson(sn::py_mod(a, b)))));
            out.insert("std_i64".into(), res(guarded(|| ijson(sn::py_mod_i64(a, b)))));
        }
        ("mod", a, b) => {
            let (fa, fb) = (tof(a), tof(b));
            if !bzero {
                out.insert("core".into(), res(guarded(|| fjson(incan_core::py_mod_f64_impl(fa, fb)))));
            }
            out.insert(
                "std_generic".into(),
                res(guarded(|| match (a, b) {
                    (Num::I(x), Num::F(y)) => fjson(sn::py_mod(x, y)),
                    (Num::F(x), Num::I(y)) => fjson(sn::py_mod(x, y)),
                    (Num::F(x), Num::F(y)) => fjson(sn::py_mod(x, y)),
                    _ => Value::Null,
                })),
            );
            out.insert("std_f64".into(), res(guarded(|| fjson(sn::py_mod_f64(fa, fb)))));
        }
        ("floordiv", Num::I(a), Num::I(b)) => {
            if !bzero {
                out.insert("core".into(), res(guarded(|| ijson(incan_core::py_floor_div_i64_impl(a, b)))));
            }
            out.insert("std_generic".into(), res(guarded(|| ijson(sn::py_floor_div(a, b)))));
            out.insert("std_i64".into(), res(guarded(|| ijson(sn::py_floor_div_i64(a, b)))));
        }
        ("floordiv", a, b) => {
            let (fa, fb) = (tof(a), tof(b));
            out.insert(
                "std_generic".into(),
                res(guarded(|| match (a, b) {
                    (Num::I(x), Num::F(y)) => fjson(sn::py_floor_div(x, y)),
                    (Num::F(x), Num::I(y)) => fjson(sn::py_floor_div(x, y)),
                    (Num::F(x), Num::F(y)) => fjson(sn::py_floor_div(x, y)),
                    _ => Value::Null,
                })),
            );
            out.insert("std_f64".into(), res(guarded(|| fjson(sn::py_floor_div_f64(fa, fb)))));
        }
        ("div", a, b) => {
            out.insert(
                "std_generic".into(),
                res(guarded(|| match (a, b) {
                    (Num::I(x), Num::I(y)) => fjson(sn::py_div(x, y)),
                    (Num::I(x), Num::F(y)) => fjson(sn::py_div(x, y)),
                    (Num::F(x), Num::I(y)) => fjson(sn::py_div(x, y)),
                    (Num::F(x), Num::F(y)) => fjson(sn::py_div(x, y)),
                })),
            );
        }
        _ => return json!({"tool_error": format!("bad num op {f}")}),
    }
    json!({"obs": Value::Object(out)})
}
fn tof(n: Num) -> f64 {
    match n {
        Num::I(x) => x as f64,
        Num::F(x) => x,
    }
}

// ---------------------------------------------------------------- sequences
// Strings are sequences of scalar ids with byte widths 1..4.
const SCALARS: &[(&str, char)] = &[
    ("a", 'a'),
    ("b", 'b'),
    ("c", 'c'),
    ("d", 'd'),
    ("e2", '\u{e9}'),
    ("f2", '\u{df}'),
    ("u3", '\u{20ac}'),
    ("v3", '\u{4e2d}'),
    ("s4", '\u{1f600}'),
    ("t4", '\u{1d11e}'),
    ("lf", '\n'),
    ("cr", '\r'),
    ("sp", ' '),
    ("tab", '\t'),
];
pub fn scalar_char(id: &str) -> char {
    SCALARS.iter().find(|(k, _)| *k == id).map(|(_, c)| *c).unwrap_or('?')
}
pub fn char_scalar(c: char) -> String {
    SCALARS
        .iter()
        .find(|(_, k)| *k == c)
        .map(|(s, _)| s.to_string())
        .unwrap_or_else(|| format!("?{:x}", c as u32))
}
pub fn seq_string(v: &Value) -> String {
    v.as_array()
        .map(|a| a.iter().map(|x| scalar_char(x.as_str().unwrap_or(""))).collect())
        .unwrap_or_default()
}
pub fn string_seq(s: &str) -> Value {
    Value::Array(s.chars().map(|c| Value::String(char_scalar(c))).collect())
}
fn seq_list(v: &Value) -> Vec<String> {
    v.as_array()
        .map(|a| a.iter().map(|x| x.as_str().unwrap_or("").to_string()).collect())
        .unwrap_or_default()
}

fn op_slice(req: &Value) -> Value {
    let s = seq_string(&req["s"]);
    let l = seq_list(&req["s"]);
    let (st, en, sp) = (getopt(req, "start"), getopt(req, "end"), getopt(req, "step"));
    let mut out = Map::new();
    let s1 = s.clone();
    out.insert(
        "core_str".into(),
        res(guarded_timeout(3000, move || match incan_core::strings::str_slice(&s1, st, en, sp) {
            Ok(r) => json!({"val": string_seq(&r)}),
            Err(e) => json!({"err": format!("{e}")}),
        })),
    );
    let s2 = s.clone();
    out.insert(
        "std_str".into(),
        res(guarded_timeout(3000, move || {
            json!({"val": string_seq(&incan_stdlib::strings::str_slice(&s2, st, en, sp))})
        })),
    );
    out.insert(
        "std_list".into(),
        res(guarded_timeout(3000, move || {
            json!({"val": incan_stdlib::collections::list_slice(&l, st, en, sp)})
        })),
    );
    json!({"obs": Value::Object(out)})
}

fn op_index(req: &Value) -> Value {
    let s = seq_string(&req["s"]);
    let l = seq_list(&req["s"]);
    let i = geti(req, "i");
    let mut out = Map::new();
    out.insert(
        "core_str".into(),
        res(guarded(|| match incan_core::strings::str_char_at(&s, i) {
            Ok(r) => json!({"val": string_seq(&r)}),
            Err(e) => json!({"err": format!("{e}")}),
        })),
    );
    out.insert(
        "std_str".into(),
        res(guarded(|| json!({"val": string_seq(&incan_stdlib::strings::str_index(&s, i))}))),
    );
    out.insert(
        "std_list".into(),
        res(guarded(|| json!({"val": [incan_stdlib::collections::list_get(&l, i).clone()]}))),
    );
    let mut l2 = l.clone();
    out.insert(
        "std_list_mut".into(),
        res(guarded(move || {
            json!({"val": [incan_stdlib::collections::list_get_mut(&mut l2, i).clone()]})
        })),
    );
    json!({"obs": Value::Object(out)})
}

fn op_dict_get(req: &Value) -> Value {
    // keys: list of ints (value = key * 10) or strings
    let mut out = Map::new();
    if req["keys"].as_array().map(|a| a.iter().all(|k| k.is_i64())).unwrap_or(false) {
        let mut m: HashMap<i64, i64> = HashMap::new();
        for k in req["keys"].as_array().unwrap() {
            let k = k.as_i64().unwrap();
            m.insert(k, k * 10);
        }
        let key = geti(req, "key");
        out.insert(
            "std_dict".into(),
            res(guarded(|| json!({"val": *incan_stdlib::collections::dict_get(&m, &key)}))),
        );
    } else {
        let mut m: HashMap<String, i64> = HashMap::new();
        for (n, k) in seq_list(&req["keys"]).into_iter().enumerate() {
            m.insert(k, n as i64);
        }
        let key = req["key"].as_str().unwrap_or("").to_string();
        out.insert(
            "std_dict".into(),
            res(guarded(|| json!({"val": *incan_stdlib::collections::dict_get(&m, &key)}))),
        );
    }
    json!({"obs": Value::Object(out)})
}

fn op_range(req: &Value) -> Value {
    let (a, b, c) = (geti(req, "a"), geti(req, "b"), geti(req, "c"));
    let limit = req.get("limit").and_then(|x| x.as_u64()).unwrap_or(64) as usize;
    let r = guarded_timeout(3000, move || {
        let it = incan_stdlib::iter::range(a, b, c);
        let v: Vec<i64> = it.take(limit + 1).collect();
        let too_long = v.len() > limit;
        json!({"val": v, "too_long": too_long})
    });
    json!({"obs": {"std_range": res(r)}})
}

fn op_policy(req: &Value) -> Value {
    use incan_core::{NumericOp, NumericTy, PowExponentKind};
    let op = match req["nop"].as_str().unwrap_or("") {
        "+" => NumericOp::Add,
        "-" => NumericOp::Sub,
        "*" => NumericOp::Mul,
        "/" => NumericOp::Div,
        "//" => NumericOp::FloorDiv,
        "%" => NumericOp::Mod,
        "**" => NumericOp::Pow,
        "==" => NumericOp::Eq,
        "!=" => NumericOp::NotEq,
        "<" => NumericOp::Lt,
        "<=" => NumericOp::LtEq,
        ">" => NumericOp::Gt,
        ">=" => NumericOp::GtEq,
        o => return json!({"tool_error": format!("bad policy op {o}")}),
    };
    let ty = |s: &str| if s == "float" { NumericTy::Float } else { NumericTy::Int };
    let l = ty(req["l"].as_str().unwrap_or(""));
    let r = ty(req["r"].as_str().unwrap_or(""));
    let ek = match req["ek"].as_str().unwrap_or("") {
        "nonneg" => Some(PowExponentKind::NonNegativeIntLiteral),
        "neg" => Some(PowExponentKind::NegativeIntLiteral),
        "var" => Some(PowExponentKind::Variable),
        "float" => Some(PowExponentKind::Float),
        _ => None,
    };
    let name = |t: NumericTy| if t == NumericTy::Float { "float" } else { "int" };
    res(guarded(|| {
        let rt = incan_core::result_numeric_type(op, l, r, ek);
        let (pl, pr) = incan_core::needs_float_promotion(op, l, r, ek);
        json!({"obs": {"result": name(rt), "promote_l": pl, "promote_r": pr,
                       "arith": incan_core::is_numeric_arithmetic_op(op),
                       "cmp": incan_core::is_numeric_comparison_op(op)}})
    }))
}

pub fn dispatch(op: &str, req: &Value) -> Option<Value> {
    Some(match op {
        "num" => op_num(req),
        "slice" => op_slice(req),
        "index" => op_index(req),
        "dict_get" => op_dict_get(req),
        "range" => op_range(req),
        "policy" => op_policy(req),
        _ => return None,
    })
}
